//! native replay of a Kani harness body: exit 1 = an assertion of the body fails natively
fn main() {
  std::panic::set_hook(Box::new(|_| {}));
  let h = std::env::args().nth(1).expect("harness name");
  let ok = engine_k::replay_native(&h);
  println!("native replay of {}: {}", h, if ok { "all assertions hold" } else { "REPRODUCED (assertion fails)" });
  std::process::exit(if ok { 0 } else { 1 });
}
