//! Engine K: Kani/CBMC bounded proofs of the two leaf mechanisms the observer
//! contract rests on (DESIGN.md 2.4).  Built against the instrumented copy
//! with the Kani flavour of the facade (Cell-based locks; a lock taken while
//! held incompatibly is an assertion failure).
//!
//! quick tier   : straight-line call sequences with symbolic arguments
//!                (`k_quick_*`), default path-merging mode, 2-10 s each
//! thorough tier: 3 symbolic operations (`k_ops3_*`), decided path by path
//!                (`--cbmc-args --paths lifo`), ~1.5 min each
//! `*_witness` harnesses end in `assert!(false)` behind the same code and
//! must come back FAILED (vacuity witness).

pub mod bodies {
  use another_rxrust::internals::function_wrapper::FunctionWrapper;
  use another_rxrust::prelude::*;
  use std::sync::atomic::{AtomicU32, Ordering};
  use std::sync::Arc;

  /// source of nondeterministic values: kani::any under Kani, a fixed list natively
  pub trait Nd {
    fn any(&mut self) -> u8;
    /// returns false when the path must be abandoned (assume)
    fn assume(&mut self, c: bool) -> bool;
  }

  fn counter() -> Arc<AtomicU32> {
    Arc::new(AtomicU32::new(0))
  }
  fn get(c: &Arc<AtomicU32>) -> u32 {
    c.load(Ordering::Relaxed)
  }

  fn mk_fw(calls: &Arc<AtomicU32>) -> FunctionWrapper<'static, u8, u8> {
    let c2 = calls.clone();
    FunctionWrapper::new(move |x: u8| {
      c2.fetch_add(1, Ordering::Relaxed);
      x
    })
  }

  struct Obs3 {
    ob: Observer<'static, u8>,
    nexts: Arc<AtomicU32>,
    terms: Arc<AtomicU32>,
    late: Arc<AtomicU32>,
  }
  fn mk_ob() -> Obs3 {
    let (nexts, terms, late) = (counter(), counter(), counter());
    let (n2, t2, t3, l1, l2, l3, tt1, tt2, tt3) =
      (nexts.clone(), terms.clone(), terms.clone(), late.clone(), late.clone(), late.clone(), terms.clone(), terms.clone(), terms.clone());
    let ob = Observer::new(
      move |_x: u8| {
        if tt1.load(Ordering::Relaxed) > 0 {
          l1.fetch_add(1, Ordering::Relaxed);
        }
        n2.fetch_add(1, Ordering::Relaxed);
      },
      move |_e| {
        if tt2.load(Ordering::Relaxed) > 0 {
          l2.fetch_add(1, Ordering::Relaxed);
        }
        t2.fetch_add(1, Ordering::Relaxed);
      },
      move || {
        if tt3.load(Ordering::Relaxed) > 0 {
          l3.fetch_add(1, Ordering::Relaxed);
        }
        t3.fetch_add(1, Ordering::Relaxed);
      },
    );
    Obs3 { ob, nexts, terms, late }
  }

  pub fn fw_straight(nd: &mut dyn Nd, witness: bool) {
    let calls = counter();
    let f = mk_fw(&calls);
    let a: u8 = nd.any();
    let b: u8 = nd.any();
    assert!(f.exists());
    assert!(f.call_if_available(a) == Some(a));
    assert!(f.call_and_clear_if_available(b) == Some(b));
    assert!(f.call_and_clear_if_available(a).is_none());
    assert!(f.call_if_available(a).is_none());
    assert!(!f.exists() && f.empty());
    assert!(get(&calls) == 2);
    f.clear();
    assert!(f.call_if_available(b).is_none());
    assert!(get(&calls) == 2);
    if witness {
      assert!(false, "reachability witness");
    }
    std::mem::forget(f);
    std::mem::forget(calls);
  }

  pub fn k_quick_fw_clear_then_call(nd: &mut dyn Nd) {
    let calls = counter();
    let f = mk_fw(&calls);
    let a: u8 = nd.any();
    assert!(f.call_if_available(a) == Some(a));
    f.clear();
    assert!(f.call_and_clear_if_available(a).is_none());
    assert!(f.call_if_available(a).is_none());
    assert!(get(&calls) == 1);
    std::mem::forget(f);
    std::mem::forget(calls);
  }

  /// next, complete, then everything again: nothing after the terminal
  pub fn k_quick_ob_complete_closes(nd: &mut dyn Nd) {
    let o = mk_ob();
    o.ob.next(nd.any());
    assert!(o.ob.is_subscribed());
    o.ob.complete();
    assert!(!o.ob.is_subscribed());
    o.ob.next(nd.any());
    o.ob.error(RxError::from_error(7u8));
    o.ob.complete();
    assert!(get(&o.nexts) == 1);
    assert!(get(&o.terms) == 1);
    assert!(get(&o.late) == 0);
    std::mem::forget(o);
  }
  /// error first
  pub fn k_quick_ob_error_closes(nd: &mut dyn Nd) {
    let o = mk_ob();
    o.ob.next(nd.any());
    o.ob.error(RxError::from_error(7u8));
    assert!(!o.ob.is_subscribed());
    o.ob.complete();
    o.ob.next(nd.any());
    o.ob.error(RxError::from_error(8u8));
    assert!(get(&o.nexts) == 1);
    assert!(get(&o.terms) == 1);
    assert!(get(&o.late) == 0);
    std::mem::forget(o);
  }
  /// unsubscribe stops everything and is idempotent
  pub fn k_quick_ob_unsubscribe_closes(nd: &mut dyn Nd) {
    let o = mk_ob();
    o.ob.next(nd.any());
    o.ob.unsubscribe();
    assert!(!o.ob.is_subscribed());
    o.ob.unsubscribe();
    o.ob.next(nd.any());
    o.ob.complete();
    o.ob.error(RxError::from_error(8u8));
    assert!(get(&o.nexts) == 1);
    assert!(get(&o.terms) == 0);
    std::mem::forget(o);
  }

  // ---- thorough: three symbolic operations

  pub fn fw_ops3(nd: &mut dyn Nd, witness: bool) {
    let calls = counter();
    let f = mk_fw(&calls);
    let mut present = true;
    let mut expected = 0u32;
    let mut cleared_runs = 0u32;
    for _ in 0..3 {
      let op: u8 = nd.any();
      if !nd.assume(op < 3) {
        return;
      }
      if op == 0 {
        let r = f.call_if_available(1);
        assert!(r.is_some() == present);
        if present {
          expected += 1;
        }
      } else if op == 1 {
        let r = f.call_and_clear_if_available(2);
        assert!(r.is_some() == present);
        if present {
          expected += 1;
          cleared_runs += 1;
        }
        present = false;
      } else {
        f.clear();
        present = false;
      }
      assert!(f.exists() == present);
      assert!(cleared_runs <= 1);
    }
    assert!(get(&calls) == expected);
    if witness {
      assert!(false, "reachability witness");
    }
    std::mem::forget(f);
    std::mem::forget(calls);
  }

  pub fn k_ops3_ob(nd: &mut dyn Nd) {
    let o = mk_ob();
    let mut closed = false;
    let mut expected_nexts = 0u32;
    for _ in 0..3 {
      let op: u8 = nd.any();
      if !nd.assume(op < 4) {
        return;
      }
      if op == 0 {
        o.ob.next(1);
        if !closed {
          expected_nexts += 1;
        }
      } else if op == 1 {
        o.ob.complete();
        closed = true;
      } else if op == 2 {
        o.ob.error(RxError::from_error(7u8));
        closed = true;
      } else {
        o.ob.unsubscribe();
        closed = true;
      }
      assert!(get(&o.terms) <= 1);
      assert!(get(&o.late) == 0);
      assert!(get(&o.nexts) == expected_nexts);
      assert!(o.ob.is_subscribed() == !closed);
    }
    std::mem::forget(o);
  }
}

#[cfg(kani)]
mod proofs {
  use super::bodies::*;
  struct K;
  impl Nd for K {
    fn any(&mut self) -> u8 {
      kani::any()
    }
    fn assume(&mut self, c: bool) -> bool {
      kani::assume(c);
      true
    }
  }
  #[kani::proof]
  fn k_quick_fw_straight() {
    fw_straight(&mut K, false);
  }
  #[kani::proof]
  fn kw_quick_fw_straight() {
    fw_straight(&mut K, true);
  }
  #[kani::proof]
  fn k_quick_fw_clear_then_call() {
    super::bodies::k_quick_fw_clear_then_call(&mut K);
  }
  #[kani::proof]
  fn k_quick_ob_complete_closes() {
    super::bodies::k_quick_ob_complete_closes(&mut K);
  }
  #[kani::proof]
  fn k_quick_ob_error_closes() {
    super::bodies::k_quick_ob_error_closes(&mut K);
  }
  #[kani::proof]
  fn k_quick_ob_unsubscribe_closes() {
    super::bodies::k_quick_ob_unsubscribe_closes(&mut K);
  }
  #[kani::proof]
  #[kani::unwind(4)]
  fn k_ops3_fw() {
    fw_ops3(&mut K, false);
  }
  #[kani::proof]
  #[kani::unwind(4)]
  fn kw_ops3_fw() {
    fw_ops3(&mut K, true);
  }
  #[kani::proof]
  #[kani::unwind(4)]
  fn k_ops3_ob() {
    super::bodies::k_ops3_ob(&mut K);
  }
}

/// native replay of the same bodies (against the pristine crate): every
/// value list over {0,1,2,3,255}^k is tried; a failing assertion panics
pub fn replay_native(harness: &str) -> bool {
  use bodies::*;
  struct L {
    vals: Vec<u8>,
    pos: usize,
  }
  impl Nd for L {
    fn any(&mut self) -> u8 {
      let v = self.vals[self.pos % self.vals.len()];
      self.pos += 1;
      v
    }
    fn assume(&mut self, c: bool) -> bool {
      c
    }
  }
  let dom = [0u8, 1, 2, 3, 255];
  let mut ok = true;
  for a in dom {
    for b in dom {
      for c in dom {
        let mut nd = L { vals: vec![a, b, c], pos: 0 };
        let r = std::panic::catch_unwind(std::panic::AssertUnwindSafe(|| match harness {
          "k_quick_fw_straight" => fw_straight(&mut nd, false),
          "k_quick_fw_clear_then_call" => k_quick_fw_clear_then_call(&mut nd),
          "k_quick_ob_complete_closes" => k_quick_ob_complete_closes(&mut nd),
          "k_quick_ob_error_closes" => k_quick_ob_error_closes(&mut nd),
          "k_quick_ob_unsubscribe_closes" => k_quick_ob_unsubscribe_closes(&mut nd),
          "k_ops3_fw" => fw_ops3(&mut nd, false),
          "k_ops3_ob" => k_ops3_ob(&mut nd),
          _ => panic!("unknown harness"),
        }));
        if r.is_err() {
          ok = false;
        }
      }
    }
  }
  ok
}
