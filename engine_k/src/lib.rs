//! Engine K: Kani/CBMC bounded proofs of the two leaf mechanisms the observer
//! contract rests on (DESIGN.md 2.4).  Built against the instrumented copy
//! with the Kani flavour of the facade (Cell-based locks).
//!
//! Each harness has a twin `*_witness` that ends in `assert!(false)` behind
//! the same assumptions and must come back FAILED (vacuity witness).

#[cfg(kani)]
mod proofs {
  use another_rxrust::internals::function_wrapper::FunctionWrapper;
  use another_rxrust::prelude::*;
  use std::cell::Cell;
  use std::rc::Rc;

  // Fn + Send + Sync closures over a counter: a tiny Sync cell for the
  // single-threaded model
  struct Ctr(Cell<u32>);
  unsafe impl Sync for Ctr {}
  unsafe impl Send for Ctr {}

  fn fw_ops(n: usize, witness: bool) {
    let calls: &'static Ctr = Box::leak(Box::new(Ctr(Cell::new(0))));
    let f: FunctionWrapper<'static, u8, u8> = FunctionWrapper::new(move |x: u8| {
      calls.0.set(calls.0.get() + 1);
      x
    });
    // model: slot present?, times the function ran through call_and_clear
    let mut present = true;
    let mut ran_clear = 0u32;
    let mut expected_calls = 0u32;
    let mut i = 0;
    while i < n {
      let op: u8 = kani::any();
      kani::assume(op < 4);
      let arg: u8 = kani::any();
      match op {
        0 => {
          let r = f.call_if_available(arg);
          assert_eq!(r.is_some(), present);
          if present {
            assert_eq!(r, Some(arg));
            expected_calls += 1;
          }
        }
        1 => {
          let r = f.call_and_clear_if_available(arg);
          assert_eq!(r.is_some(), present);
          if present {
            ran_clear += 1;
            expected_calls += 1;
          }
          present = false;
        }
        2 => {
          f.clear();
          present = false;
        }
        _ => {
          assert_eq!(f.exists(), present);
          assert_eq!(f.empty(), !present);
        }
      }
      // never after clear, at most once through call_and_clear
      assert!(ran_clear <= 1);
      assert_eq!(calls.0.get(), expected_calls);
      i += 1;
    }
    kani::cover!(ran_clear == 1 && !present, "a call_and_clear happened");
    if witness {
      assert!(false, "reachability witness");
    }
    std::mem::forget(f);
  }

  #[kani::proof]
  #[kani::unwind(6)]
  fn function_wrapper_ops() {
    fw_ops(5, false);
  }
  #[kani::proof]
  #[kani::unwind(6)]
  fn function_wrapper_ops_witness() {
    fw_ops(5, true);
  }

  struct Log {
    nexts: Cell<u32>,
    errors: Cell<u32>,
    completes: Cell<u32>,
    after_terminal: Cell<bool>,
  }
  unsafe impl Sync for Log {}
  unsafe impl Send for Log {}

  fn observer_ops(n: usize, witness: bool) {
    let log: &'static Log = Box::leak(Box::new(Log {
      nexts: Cell::new(0),
      errors: Cell::new(0),
      completes: Cell::new(0),
      after_terminal: Cell::new(false),
    }));
    let done = move || log.errors.get() + log.completes.get() > 0;
    let ob: Observer<'static, u8> = Observer::new(
      move |_x: u8| {
        if done() {
          log.after_terminal.set(true);
        }
        log.nexts.set(log.nexts.get() + 1);
      },
      move |_e| {
        if done() {
          log.after_terminal.set(true);
        }
        log.errors.set(log.errors.get() + 1);
      },
      move || {
        if done() {
          log.after_terminal.set(true);
        }
        log.completes.set(log.completes.get() + 1);
      },
    );
    let mut closed = false; // terminal or unsubscribe happened
    let mut expected_nexts = 0u32;
    let mut i = 0;
    while i < n {
      let op: u8 = kani::any();
      kani::assume(op < 4);
      match op {
        0 => {
          ob.next(kani::any());
          if !closed {
            expected_nexts += 1;
          }
        }
        1 => {
          ob.complete();
          closed = true;
        }
        2 => {
          ob.error(RxError::from_error(7u8));
          closed = true;
        }
        _ => {
          ob.unsubscribe();
          closed = true;
        }
      }
      // the contract of a directly attached subscriber
      assert!(log.errors.get() + log.completes.get() <= 1, "more than one terminal");
      assert!(!log.after_terminal.get(), "callback after the terminal");
      assert_eq!(log.nexts.get(), expected_nexts, "item delivered after terminal/unsubscribe");
      assert_eq!(ob.is_subscribed(), !closed);
      i += 1;
    }
    kani::cover!(closed && expected_nexts > 0, "items then closed");
    if witness {
      assert!(false, "reachability witness");
    }
    std::mem::forget(ob);
    let _ = Rc::new(0);
  }

  #[kani::proof]
  #[kani::unwind(5)]
  fn observer_contract() {
    observer_ops(3, false);
  }
  #[kani::proof]
  #[kani::unwind(5)]
  fn observer_contract_witness() {
    observer_ops(3, true);
  }
}
