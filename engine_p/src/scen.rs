//! Catalogue of concurrent scenarios (engine P).  Each scenario is task 0 of
//! an execution; it spawns producer / unsubscriber tasks through the facade
//! and logs harness markers:
//!   emit+ <src> <kind> <val> / emit- ...   around every call that emits into the library
//!   cb+ <obs> <kind> <val>   / cb- ...     around every subscriber callback
//!   call+ <api> <id>         / call- ...   around unsubscribe / abort / post ...
//!   meta <json>                            expectations for the monitors
//! Values are unique per scenario so that an emission and its deliveries can
//! be matched.

use another_rxrust::prelude::*;
use another_rxrust::vf;
use another_rxrust::vf::rt::mark;
use std::sync::Arc;
use std::time::Duration;

type Body = Box<dyn FnOnce() + Send + 'static>;
type Obs = Observable<'static, i64>;

fn spawn<F: FnOnce() + Send + 'static>(f: F) -> vf::JoinHandle<()> {
  vf::spawn(f)
}

// ---------------------------------------------------------------------------
// kit
// ---------------------------------------------------------------------------

fn subscribe_rec(o: &Obs, id: &str) -> Subscription<'static> {
  let (a, b, c) = (id.to_string(), id.to_string(), id.to_string());
  o.subscribe(
    move |x: i64| {
      mark(&format!("cb+ {} n {}", a, x));
      mark(&format!("cb- {} n {}", a, x));
    },
    move |e: RxError| {
      let v = e.downcast_ref::<i64>().copied().unwrap_or(-1);
      mark(&format!("cb+ {} e {}", b, v));
      mark(&format!("cb- {} e {}", b, v));
    },
    move || {
      mark(&format!("cb+ {} c 0", c));
      mark(&format!("cb- {} c 0", c));
    },
  )
}

#[derive(Clone)]
enum Sbj {
  S(subjects::Subject<'static, i64>),
  B(subjects::BehaviorSubject<'static, i64>),
  R(subjects::ReplaySubject<'static, i64>),
  A(subjects::AsyncSubject<'static, i64>),
}
impl Sbj {
  fn new(kind: &str) -> Sbj {
    match kind {
      "behavior" => Sbj::B(subjects::BehaviorSubject::new(0)),
      "replay" => Sbj::R(subjects::ReplaySubject::new()),
      "async" => Sbj::A(subjects::AsyncSubject::new()),
      _ => Sbj::S(subjects::Subject::new()),
    }
  }
  fn observable(&self) -> Obs {
    match self {
      Sbj::S(s) => s.observable(),
      Sbj::B(s) => s.observable(),
      Sbj::R(s) => s.observable(),
      Sbj::A(s) => s.observable(),
    }
  }
  fn next(&self, src: &str, x: i64) {
    mark(&format!("emit+ {} n {}", src, x));
    match self {
      Sbj::S(s) => s.next(x),
      Sbj::B(s) => s.next(x),
      Sbj::R(s) => s.next(x),
      Sbj::A(s) => s.next(x),
    }
    mark(&format!("emit- {} n {}", src, x));
  }
  fn complete(&self, src: &str) {
    mark(&format!("emit+ {} c 0", src));
    match self {
      Sbj::S(s) => s.complete(),
      Sbj::B(s) => s.complete(),
      Sbj::R(s) => s.complete(),
      Sbj::A(s) => s.complete(),
    }
    mark(&format!("emit- {} c 0", src));
  }
  fn error(&self, src: &str, v: i64) {
    mark(&format!("emit+ {} e {}", src, v));
    let e = RxError::from_error(v);
    match self {
      Sbj::S(s) => s.error(e),
      Sbj::B(s) => s.error(e),
      Sbj::R(s) => s.error(e),
      Sbj::A(s) => s.error(e),
    }
    mark(&format!("emit- {} e {}", src, v));
  }
}

/// a producer task: items then an ending ("c" complete, "e" error, "-" nothing)
fn producer(s: Sbj, src: &'static str, items: Vec<i64>, end: &'static str) -> vf::JoinHandle<()> {
  spawn(move || {
    for x in items {
      s.next(src, x);
    }
    match end {
      "c" => s.complete(src),
      "e" => s.error(src, 900),
      _ => {}
    }
  })
}

fn meta(j: serde_json::Value) {
  mark(&format!("meta {}", j));
}

// ---------------------------------------------------------------------------
// scenarios
// ---------------------------------------------------------------------------

/// C19/C12: next racing complete/error on one subject, one observer
fn subj_race(kind: &'static str, end: &'static str) -> Body {
  Box::new(move || {
    let s = Sbj::new(kind);
    meta(serde_json::json!({"kind": "subj_race", "subject": kind, "observers": ["A"], "sources": {"p1": [1, 2]}, "terminal_by": "p2"}));
    let _sub = subscribe_rec(&s.observable(), "A");
    let h1 = producer(s.clone(), "p1", vec![1, 2], "-");
    let h2 = producer(s.clone(), "p2", vec![], end);
    let _ = h1.join();
    let _ = h2.join();
  })
}

/// C11/C19: a combinator over subjects fed from two threads
fn comb2(comb: &'static str, post: &'static str, end2: &'static str, end1: &'static str) -> Body {
  Box::new(move || {
    let s1 = Sbj::new("subject");
    let s2 = Sbj::new("subject");
    let o1 = s1.observable();
    let o2 = s2.observable();
    let o: Obs = match comb {
      "merge" => o1.merge(&[o2]),
      "concat" => o1.concat(&[o2]),
      "amb" => o1.amb(&[o2]),
      "zip" => o1.zip(&[o2]).map(|v: Vec<i64>| v[0] * 100 + v[1]),
      "flat_map" => {
        let o2c = o2.clone();
        o1.flat_map(move |_x| o2c.clone())
      }
      "combine_latest" => o1.combine_latest(&[o2], |v: Vec<i64>| v[0] * 100 + v[1]),
      "sequence_equal" => o1.sequence_equal(&[o2]).map(|b: bool| 7000 + b as i64),
      "switch_on_next" => o1.switch_on_next(o2),
      "take_until" => o1.take_until(o2),
      "skip_until" => o1.skip_until(o2),
      "sample" => o1.sample(o2),
      _ => panic!("comb"),
    };
    let o = match post {
      "take1" => o.take(1),
      "take2" => o.take(2),
      _ => o,
    };
    meta(serde_json::json!({"kind": "comb2", "comb": comb, "post": post, "observers": ["A"],
      "sources": {"p1": [1, 2], "p2": [11, 12]}, "end1": end1, "end2": end2}));
    let _sub = subscribe_rec(&o, "A");
    let h1 = producer(s1.clone(), "p1", vec![1, 2], end1);
    let h2 = producer(s2.clone(), "p2", vec![11, 12], end2);
    let _ = h1.join();
    let _ = h2.join();
  })
}

/// C11: merge over three producer threads
fn merge3() -> Body {
  Box::new(move || {
    let ss: Vec<Sbj> = (0..3).map(|_| Sbj::new("subject")).collect();
    let o = ss[0].observable().merge(&[ss[1].observable(), ss[2].observable()]);
    meta(serde_json::json!({"kind": "merge3", "observers": ["A"], "sources": {"p1": [1, 2], "p2": [11, 12], "p3": [21]}}));
    let _sub = subscribe_rec(&o, "A");
    let h1 = producer(ss[0].clone(), "p1", vec![1, 2], "c");
    let h2 = producer(ss[1].clone(), "p2", vec![11, 12], "c");
    let h3 = producer(ss[2].clone(), "p3", vec![21], "c");
    let _ = h1.join();
    let _ = h2.join();
    let _ = h3.join();
  })
}

/// C12: a stable observer, a joining observer and a leaving observer while
/// one or two producers push
fn subj_join(kind: &'static str, producers: usize) -> Body {
  Box::new(move || {
    let s = Sbj::new(kind);
    meta(serde_json::json!({"kind": "subj_join", "subject": kind, "observers": ["A", "J", "L"],
      "sources": if producers == 2 { serde_json::json!({"p1": [1, 2], "p2": [11, 12]}) } else { serde_json::json!({"p1": [1, 2, 3]}) }}));
    let _a = subscribe_rec(&s.observable(), "A");
    let l = subscribe_rec(&s.observable(), "L");
    let h1 = producer(s.clone(), "p1", if producers == 2 { vec![1, 2] } else { vec![1, 2, 3] }, "-");
    let h2 = if producers == 2 { Some(producer(s.clone(), "p2", vec![11, 12], "-")) } else { None };
    let sj = s.clone();
    let hj = spawn(move || {
      mark("call+ subscribe J");
      let sub = subscribe_rec(&sj.observable(), "J");
      mark("call- subscribe J");
      std::mem::forget(sub);
    });
    let hl = spawn(move || {
      mark("call+ unsubscribe L");
      l.unsubscribe();
      mark("call- unsubscribe L");
    });
    let _ = h1.join();
    if let Some(h) = h2 {
      let _ = h.join();
    }
    let _ = hj.join();
    let _ = hl.join();
  })
}

/// C05: unsubscribe racing a producer thread, through a short pipeline
fn unsub_race(pipe: &'static str) -> Body {
  Box::new(move || {
    let s = Sbj::new("subject");
    let o = s.observable();
    let o: Obs = match pipe {
      "map" => o.map(|x: i64| x),
      "take" => o.take(5),
      "observe_on" => o.observe_on(schedulers::new_thread_scheduler()),
      "map_observe_on" => o.map(|x: i64| x).observe_on(schedulers::new_thread_scheduler()),
      _ => o,
    };
    meta(serde_json::json!({"kind": "unsub_race", "pipe": pipe, "observers": ["A"], "sources": {"p1": [1, 2, 3]}}));
    let sub = subscribe_rec(&o, "A");
    let h1 = producer(s.clone(), "p1", vec![1, 2, 3], "-");
    mark("call+ unsubscribe A");
    sub.unsubscribe();
    mark("call- unsubscribe A");
    let _ = h1.join();
    // a second call has no effect
    sub.unsubscribe();
  })
}

/// C05: a producer thread that pushes straight into the subscriber it was handed (no subject in
/// between, no polling of is_subscribed) races unsubscribe
fn unsub_race_create(pipe: &'static str) -> Body {
  Box::new(move || {
    let hs: Arc<std::sync::Mutex<Vec<vf::JoinHandle<()>>>> = Arc::new(std::sync::Mutex::new(vec![]));
    let hs2 = hs.clone();
    let two = pipe == "create2";
    let src: Obs = Observable::create(move |ob: Observer<'static, i64>| {
      let ob2 = ob.clone();
      let h = spawn(move || {
        for x in if two { vec![1i64] } else { vec![1i64, 2, 3] } {
          mark(&format!("emit+ p1 n {}", x));
          ob.next(x);
          mark(&format!("emit- p1 n {}", x));
        }
        if two {
          // a second thread shares the observer: this one completes while the other still emits
          mark("emit+ p1 c 0");
          ob.complete();
          mark("emit- p1 c 0");
        }
      });
      hs2.lock().unwrap().push(h);
      if two {
        let h = spawn(move || {
          for x in [11i64, 12] {
            mark(&format!("emit+ p2 n {}", x));
            ob2.next(x);
            mark(&format!("emit- p2 n {}", x));
          }
        });
        hs2.lock().unwrap().push(h);
      }
    });
    let o: Obs = match pipe {
      "create_map" => src.map(|x: i64| x),
      "create_tap" => src.tap(|_x: i64| {}, |_e| {}, || {}),
      _ => src,
    };
    if two {
      meta(serde_json::json!({"kind": "unsub_race", "pipe": pipe, "observers": ["A"], "sources": {"p1": [1], "p2": [11, 12]}}));
    } else {
      meta(serde_json::json!({"kind": "unsub_race", "pipe": pipe, "observers": ["A"], "sources": {"p1": [1, 2, 3]}}));
    }
    let sub = subscribe_rec(&o, "A");
    mark("call+ unsubscribe A");
    sub.unsubscribe();
    mark("call- unsubscribe A");
    let v: Vec<_> = hs.lock().unwrap().drain(..).collect();
    for h in v {
      let _ = h.join();
    }
    sub.unsubscribe();
  })
}

/// C09: observe_on / subscribe_on hand events to the scheduler
fn sched_op(variant: &'static str, end: &'static str, unsub: bool) -> Body {
  Box::new(move || {
    // the source emits from its own thread (hot) for observe_on, synchronously for subscribe_on
    let s = Sbj::new("subject");
    // `_gap`: the source is quiet for 2 s (virtual) after its first item - the worker idles meanwhile
    let variant_full = variant;
    let gap = variant.ends_with("_gap");
    let variant = variant.trim_end_matches("_gap").trim_end_matches("_feedback");
    let cold: Obs = Observable::create(move |ob: Observer<'static, i64>| {
      for x in [1i64, 2, 3] {
        mark(&format!("emit+ p1 n {}", x));
        ob.next(x);
        mark(&format!("emit- p1 n {}", x));
        if gap && x == 1 {
          vf::sleep(Duration::from_secs(2));
        }
      }
      if end == "c" {
        mark("emit+ p1 c 0");
        ob.complete();
        mark("emit- p1 c 0");
      } else if end == "e" {
        mark("emit+ p1 e 900");
        ob.error(RxError::from_error(900i64));
        mark("emit- p1 e 900");
      }
    });
    let nt = schedulers::new_thread_scheduler;
    let (o, hot): (Obs, bool) = match variant {
      "observe_on" => (s.observable().observe_on(nt()), true),
      "observe_on_map" => (s.observable().observe_on(nt()).map(|x: i64| x), true),
      "map_observe_on" => (s.observable().map(|x: i64| x).observe_on(nt()), true),
      "observe_on_x2" => (s.observable().observe_on(nt()).observe_on(nt()), true),
      "observe_on_take" => (s.observable().observe_on(nt()).take(2), true),
      "subscribe_on" => (cold.subscribe_on(nt()), false),
      "subscribe_on_map" => (cold.map(|x: i64| x).subscribe_on(nt()), false),
      "subscribe_on_observe_on" => (cold.subscribe_on(nt()).observe_on(nt()), false),
      _ => panic!("variant"),
    };
    meta(serde_json::json!({"kind": "sched_op", "variant": variant, "observers": ["A"], "sources": {"p1": [1, 2, 3]},
      "end1": end, "unsub": unsub, "take": if variant == "observe_on_take" { 2 } else { 99 },
      "feedback": if variant_full.ends_with("_feedback") { 5 } else { 0 }}));
    let feedback = variant_full.ends_with("_feedback");
    let sub = if feedback {
      // the subscriber pushes one more item into the source from its callback (on the worker thread)
      let s_fb = s.clone();
      o.subscribe(
        move |x: i64| {
          mark(&format!("cb+ A n {}", x));
          if x == 1 {
            s_fb.next("fb", 5);
          }
          mark(&format!("cb- A n {}", x));
        },
        move |e: RxError| {
          let v = e.downcast_ref::<i64>().copied().unwrap_or(-1);
          mark(&format!("cb+ A e {}", v));
          mark(&format!("cb- A e {}", v));
        },
        move || {
          mark("cb+ A c 0");
          mark("cb- A c 0");
        },
      )
    } else {
      subscribe_rec(&o, "A")
    };
    let h1 = if hot && gap {
      let s = s.clone();
      Some(spawn(move || {
        s.next("p1", 1);
        vf::sleep(Duration::from_secs(2));
        s.next("p1", 2);
        s.next("p1", 3);
        match end {
          "c" => s.complete("p1"),
          "e" => s.error("p1", 900),
          _ => {}
        }
      }))
    } else if hot {
      Some(producer(s.clone(), "p1", vec![1, 2, 3], end))
    } else {
      None
    };
    if unsub {
      mark("call+ unsubscribe A");
      sub.unsubscribe();
      mark("call- unsubscribe A");
    }
    if let Some(h) = h1 {
      let _ = h.join();
    }
    if feedback {
      // the source never ends: let the worker drain (virtual time passes only when every task is blocked),
      // then leave so that the execution finishes
      vf::sleep(Duration::from_secs(1));
      sub.unsubscribe();
    }
  })
}

/// C08: the scheduler queue
fn scheduler(posters: usize, abort_inside: bool) -> Body {
  Box::new(move || {
    use another_rxrust::schedulers::scheduler::IScheduler;
    let sch = schedulers::NewThreadScheduler::new();
    meta(serde_json::json!({"kind": "scheduler", "posters": posters, "per_poster": 2, "abort_inside": abort_inside}));
    let mut hs = vec![];
    for p in 0..posters {
      let sch = sch.clone();
      hs.push(spawn(move || {
        for k in 0..2 {
          let id = p * 10 + k;
          let inner = sch.clone();
          mark(&format!("call+ post {}", id));
          sch.post(move || {
            mark(&format!("task+ {}", id));
            if abort_inside && id == 0 {
              mark("call+ abort 0");
              inner.abort();
              mark("call- abort 0");
            }
            mark(&format!("task- {}", id));
          });
          mark(&format!("call- post {}", id));
        }
      }));
    }
    for h in hs {
      let _ = h.join();
    }
    if !abort_inside {
      mark("call+ abort 0");
      sch.abort();
      mark("call- abort 0");
    }
  })
}

/// C08 variant: the queue is idle for 2 s (virtual) between two posts
fn scheduler_idle() -> Body {
  Box::new(move || {
    use another_rxrust::schedulers::scheduler::IScheduler;
    let sch = schedulers::NewThreadScheduler::new();
    meta(serde_json::json!({"kind": "scheduler", "posters": 1, "per_poster": 2, "abort_inside": false, "quiescent_before_abort": true}));
    let s2 = sch.clone();
    let h = spawn(move || {
      for id in 0..2 {
        mark(&format!("call+ post {}", id));
        s2.post(move || {
          mark(&format!("task+ {}", id));
          mark(&format!("task- {}", id));
        });
        mark(&format!("call- post {}", id));
        if id == 0 {
          vf::sleep(Duration::from_secs(2));
        }
      }
    });
    let _ = h.join();
    // let the worker drain before the abort (abort discards what is still queued)
    vf::sleep(Duration::from_secs(2));
    mark("call+ abort 0");
    sch.abort();
    mark("call- abort 0");
  })
}

/// C08 variant: abort racing the posters
fn scheduler_abort_race() -> Body {
  Box::new(move || {
    use another_rxrust::schedulers::scheduler::IScheduler;
    let sch = schedulers::NewThreadScheduler::new();
    meta(serde_json::json!({"kind": "scheduler", "posters": 1, "per_poster": 2, "abort_inside": false, "abort_race": true}));
    let s2 = sch.clone();
    let h = spawn(move || {
      for id in 0..2 {
        mark(&format!("call+ post {}", id));
        s2.post(move || {
          mark(&format!("task+ {}", id));
          mark(&format!("task- {}", id));
        });
        mark(&format!("call- post {}", id));
      }
    });
    mark("call+ abort 0");
    sch.abort();
    mark("call- abort 0");
    let _ = h.join();
  })
}

/// C18: the to_vec future polled while another thread emits
fn to_vec(end: &'static str, rewake: bool) -> Body {
  Box::new(move || {
    use std::future::Future;
    use std::task::{Context, Poll, Wake, Waker};
    struct W {
      flag: vf::Mutex<bool>,
      cv: vf::Condvar,
    }
    impl Wake for W {
      fn wake(self: Arc<Self>) {
        mark("wake");
        *self.flag.lock().unwrap() = true;
        self.cv.notify_one();
      }
    }
    let s = Sbj::new("subject");
    meta(serde_json::json!({"kind": "to_vec", "sources": {"p1": [1, 2]}, "end1": end}));
    let src_obs = s.observable();
    let mut fut = src_obs.to_vec();
    let h1 = if rewake {
      // the source starts only after both polls: the first waker is certainly stale
      let s2 = s.clone();
      spawn(move || {
        vf::sleep(Duration::from_millis(5));
        for x in [1i64, 2] {
          s2.next("p1", x);
        }
        if end == "c" {
          s2.complete("p1");
        } else {
          s2.error("p1", 900);
        }
      })
    } else {
      producer(s.clone(), "p1", vec![1, 2], end)
    };
    // `rewake`: the future is first polled with another waker (it moved between tasks); only the
    // waker of the most recent poll has to be woken
    if rewake {
      let w0 = Arc::new(W { flag: vf::Mutex::new(false), cv: vf::Condvar::new() });
      let waker0 = Waker::from(w0.clone());
      let mut cx0 = Context::from_waker(&waker0);
      mark("poll+ 0");
      match std::pin::Pin::new(&mut fut).poll(&mut cx0) {
        Poll::Pending => mark("pending"),
        _ => mark("ready-before-source"),
      }
    }
    let w = Arc::new(W { flag: vf::Mutex::new(false), cv: vf::Condvar::new() });
    let waker = Waker::from(w.clone());
    let mut cx = Context::from_waker(&waker);
    let mut polls = 0;
    loop {
      polls += 1;
      mark(&format!("poll+ {}", polls));
      let r = std::pin::Pin::new(&mut fut).poll(&mut cx);
      match r {
        Poll::Ready(Ok(v)) => {
          let v = v.read().unwrap().clone();
          mark(&format!("ready ok {:?}", v));
          break;
        }
        Poll::Ready(Err(e)) => {
          mark(&format!("ready err {}", e.downcast_ref::<i64>().copied().unwrap_or(-1)));
          break;
        }
        Poll::Pending => {
          mark("pending");
          // block until woken
          let g = w.flag.lock().unwrap();
          let mut g = w.cv.wait_while(g, |f| !*f).unwrap();
          *g = false;
        }
      }
      if polls > 6 {
        mark("too many polls");
        break;
      }
    }
    let _ = h1.join();
  })
}

/// C15: worker threads exit when the subscription ends
fn workers(op: &'static str, cause: &'static str) -> Body {
  Box::new(move || {
    let nt = schedulers::new_thread_scheduler;
    let d = Duration::from_millis(10);
    let s = Sbj::new("subject");
    // subscribe_on subscribes on the worker: its source is cold (emits inside subscribe)
    let cold: Obs = Observable::create(move |ob: Observer<'static, i64>| {
      ob.next(1);
      ob.next(2);
      match cause {
        "complete" => ob.complete(),
        "error" => ob.error(RxError::from_error(900i64)),
        _ => {}
      }
    });
    let o: Obs = match op {
      "interval" => observables::interval(d, nt()).map(|x: u64| x as i64),
      "timer" => observables::timer(d, nt()).map(|_| 1i64),
      // the subscription ends before the timer / the first tick fires
      "timer_late" => observables::timer(Duration::from_millis(60), nt()).map(|_| 1i64),
      "interval_late" => observables::interval(Duration::from_millis(60), nt()).map(|x: u64| x as i64),
      // a timer used as the trigger of a source that ends first
      "trigger_timer" => s.observable().take_until(observables::timer(Duration::from_millis(60), nt())),
      "observe_on" => s.observable().observe_on(nt()),
      "subscribe_on" => cold.subscribe_on(nt()),
      "debounce" => s.observable().debounce(d, nt()),
      "timeout" => s.observable().timeout(Duration::from_millis(50), nt()),
      "interval_observe_on" => observables::interval(d, nt()).map(|x: u64| x as i64).observe_on(nt()),
      "delay_observe_on" => s.observable().delay(d).observe_on(nt()),
      _ => panic!("op"),
    };
    let o: Obs = match cause {
      // debounce and timer deliver a single item for this script
      "take" => o.take(if matches!(op, "debounce" | "timer") { 1 } else { 2 }),
      "first" => o.first(),
      "take_until" => {
        let trig = Sbj::new("subject");
        let t2 = trig.clone();
        let o = o.take_until(trig.observable());
        spawn(move || {
          vf::sleep(Duration::from_millis(25));
          t2.next("trig", 500);
        });
        o
      }
      _ => o,
    };
    meta(serde_json::json!({"kind": "workers", "op": op, "cause": cause}));
    let sub = subscribe_rec(&o, "A");
    let driven = matches!(op, "observe_on" | "debounce" | "timeout" | "delay_observe_on" | "trigger_timer");
    if driven {
      // the source emits from the harness
      s.next("p1", 1);
      s.next("p1", 2);
      match cause {
        "complete" => s.complete("p1"),
        "error" => s.error("p1", 900),
        _ => {}
      }
    }
    match cause {
      "unsubscribe" => {
        vf::sleep(Duration::from_millis(25));
        mark("call+ unsubscribe A");
        sub.unsubscribe();
        mark("call- unsubscribe A");
      }
      _ => {}
    }
    // give every worker several periods of virtual time
    vf::sleep(Duration::from_millis(400));
    mark("quiescence-check");
  })
}

/// C15: the same operators over a source that terminates synchronously inside subscribe
fn workers_cold(op: &'static str, end: &'static str) -> Body {
  Box::new(move || {
    let nt = schedulers::new_thread_scheduler;
    let d = Duration::from_millis(10);
    let src: Obs = match end {
      "complete" => observables::from_iter(vec![1i64, 2, 3].into_iter()),
      "error" => observables::error(RxError::from_error(900i64)),
      "just" => observables::just(1i64),
      _ => observables::empty(),
    };
    let o: Obs = match op {
      "observe_on" => src.observe_on(nt()),
      "subscribe_on" => src.subscribe_on(nt()),
      "debounce" => src.debounce(d, nt()),
      "timeout" => src.timeout(Duration::from_millis(50), nt()),
      "observe_on_x2" => src.observe_on(nt()).observe_on(nt()),
      "subscribe_on_observe_on" => src.subscribe_on(nt()).observe_on(nt()),
      "debounce_take" => src.debounce(d, nt()).take(1),
      "observe_on_first" => src.observe_on(nt()).first(),
      _ => panic!("op"),
    };
    meta(serde_json::json!({"kind": "workers", "op": op, "cause": format!("sync-{}", end)}));
    let _sub = subscribe_rec(&o, "A");
    vf::sleep(Duration::from_millis(400));
    mark("quiescence-check");
  })
}

/// C14 (thread-creating operators): the same Observable value subscribed twice, one after the other
fn resub(op: &'static str) -> Body {
  Box::new(move || {
    let nt = schedulers::new_thread_scheduler;
    let attempts = Arc::new(std::sync::Mutex::new(0usize));
    let a2 = attempts.clone();
    let cold: Obs = Observable::create(move |ob: Observer<'static, i64>| {
      let k = {
        let mut a = a2.lock().unwrap();
        *a += 1;
        *a
      };
      for x in [1i64, 2, 3] {
        ob.next(x);
      }
      if op == "subscribe_on_retry" && k == 1 {
        ob.error(RxError::from_error(900i64));
      } else {
        ob.complete();
      }
    });
    let o: Obs = match op {
      "observe_on" => cold.observe_on(nt()),
      "subscribe_on" => cold.subscribe_on(nt()),
      "subscribe_on_retry" => cold.subscribe_on(nt()).retry(2),
      "observe_on_map" => cold.observe_on(nt()).map(|x: i64| x),
      "subscribe_on_observe_on" => cold.subscribe_on(nt()).observe_on(nt()),
      "delay" => cold.delay(Duration::from_millis(5)),
      "debounce" => cold.debounce(Duration::from_millis(5), nt()),
      "timer" => observables::timer(Duration::from_millis(5), nt()).map(|_| 1i64),
      "interval_take" => observables::interval(Duration::from_millis(5), nt()).take(3).map(|x: u64| x as i64 + 1),
      "timeout" => cold.timeout(Duration::from_millis(50), nt()),
      _ => panic!("op"),
    };
    meta(serde_json::json!({"kind": "resub", "op": op, "observers": ["A", "B"], "items": if op == "timer" { vec![1] } else { vec![1, 2, 3] }}));
    let _a = subscribe_rec(&o, "A");
    vf::sleep(Duration::from_millis(100));
    mark("second-subscription");
    let _b = subscribe_rec(&o, "B");
    vf::sleep(Duration::from_millis(100));
    mark("quiescence-check");
  })
}

pub fn catalogue() -> Vec<(String, Vec<&'static str>)> {
  let mut v: Vec<(String, Vec<&'static str>)> = vec![];
  for k in ["subject", "behavior", "replay", "async"] {
    for e in ["c", "e"] {
      v.push((format!("subj_race:{}:{}", k, e), vec!["C19", "C12", "C07"]));
    }
  }
  for c in ["merge", "concat", "amb", "zip", "flat_map"] {
    for p in ["none", "take2"] {
      v.push((format!("comb2:{}:{}:c", c, p), vec!["C11", "C19", "C07"]));
    }
    v.push((format!("comb2:{}:none:e", c), vec!["C19", "C07"]));
  }
  for c in ["take_until", "skip_until", "sample"] {
    v.push((format!("comb2:{}:none:c", c), vec!["C19", "C07"]));
  }
  for c in ["combine_latest", "sequence_equal", "switch_on_next", "take_until", "skip_until", "sample"] {
    v.push((format!("comb2:{}:none:e", c), vec!["C19", "C07"]));
  }
  // the first input fails while the second one (trigger / sibling) is still emitting or completing
  for c in ["take_until", "skip_until", "sample", "amb", "switch_on_next", "concat", "merge", "zip"] {
    v.push((format!("comb2:{}:none:c:e", c), vec!["C19", "C07"]));
  }
  v.push(("merge3".to_string(), vec!["C11", "C19", "C07"]));
  for k in ["subject", "behavior", "replay"] {
    v.push((format!("subj_join:{}:1", k), vec!["C12", "C07"]));
    v.push((format!("subj_join:{}:2", k), vec!["C12", "C07"]));
  }
  for p in ["none", "map", "take", "observe_on", "map_observe_on", "create", "create_map", "create_tap", "create2"] {
    v.push((format!("unsub_race:{}", p), vec!["C05", "C07"]));
  }
  for var in ["observe_on", "observe_on_map", "map_observe_on", "observe_on_x2", "observe_on_take", "subscribe_on", "subscribe_on_map", "subscribe_on_observe_on"] {
    for e in ["c", "e"] {
      v.push((format!("sched_op:{}:{}:0", var, e), vec!["C09", "C07", "C15"]));
    }
    v.push((format!("sched_op:{}:-:1", var), vec!["C09", "C05", "C07", "C15"]));
  }
  for p in [1, 2, 3] {
    v.push((format!("scheduler:{}:0", p), vec!["C08", "C07"]));
  }
  v.push(("scheduler:1:1".to_string(), vec!["C08", "C07"]));
  v.push(("scheduler_idle".to_string(), vec!["C08", "C07"]));
  for (var, e) in [("observe_on_gap", "c"), ("observe_on_map_gap", "e"), ("subscribe_on_observe_on_gap", "c"), ("observe_on_feedback", "-"), ("observe_on_map_feedback", "-")] {
    v.push((format!("sched_op:{}:{}:0", var, e), vec!["C09", "C07", "C15"]));
  }
  v.push(("scheduler_abort_race".to_string(), vec!["C08", "C07"]));
  for e in ["c", "e"] {
    v.push((format!("to_vec:{}", e), vec!["C18", "C07"]));
    v.push((format!("to_vec_rewake:{}", e), vec!["C18", "C07"]));
  }
  for op in ["interval", "timer", "observe_on", "subscribe_on", "debounce", "timeout", "interval_observe_on", "delay_observe_on"] {
    for cause in ["complete", "error", "unsubscribe", "take", "first", "take_until"] {
      let driven = matches!(op, "observe_on" | "subscribe_on" | "debounce" | "timeout" | "delay_observe_on");
      if !driven && matches!(cause, "complete" | "error") {
        continue; // interval never completes by itself; timer is covered by "take"
      }
      v.push((format!("workers:{}:{}", op, cause), vec!["C15", "C07"]));
    }
  }
  for (op, cause) in [("timer_late", "unsubscribe"), ("timer_late", "take_until"), ("interval_late", "unsubscribe"), ("interval_late", "take_until"),
    ("trigger_timer", "complete"), ("trigger_timer", "error"), ("trigger_timer", "unsubscribe")] {
    v.push((format!("workers:{}:{}", op, cause), vec!["C15", "C07"]));
  }
  for op in ["observe_on", "subscribe_on", "subscribe_on_retry", "observe_on_map", "subscribe_on_observe_on", "delay", "debounce", "timer", "interval_take", "timeout"] {
    v.push((format!("resub:{}", op), vec!["C14", "C07", "C15"]));
  }
  for op in ["observe_on", "subscribe_on", "debounce", "timeout", "observe_on_x2", "subscribe_on_observe_on", "debounce_take", "observe_on_first"] {
    for end in ["complete", "error", "just", "empty"] {
      v.push((format!("workers_cold:{}:{}", op, end), vec!["C15", "C07"]));
    }
  }
  v
}

fn leak(s: &str) -> &'static str {
  Box::leak(s.to_string().into_boxed_str())
}

pub fn build(name: &str) -> Option<Body> {
  let p: Vec<&'static str> = name.split(':').map(leak).collect();
  match p[0] {
    "subj_race" if p.len() == 3 => Some(subj_race(p[1], p[2])),
    "comb2" if p.len() == 4 => Some(comb2(p[1], p[2], p[3], "c")),
    "comb2" if p.len() == 5 => Some(comb2(p[1], p[2], p[3], p[4])),
    "subj_join" if p.len() == 3 => Some(subj_join(p[1], p[2].parse().ok()?)),
    "unsub_race" if p.len() == 2 && p[1].starts_with("create") => Some(unsub_race_create(p[1])),
    "unsub_race" if p.len() == 2 => Some(unsub_race(p[1])),
    "sched_op" if p.len() == 4 => Some(sched_op(p[1], p[2], p[3] == "1")),
    "scheduler" if p.len() == 3 => Some(scheduler(p[1].parse().ok()?, p[2] == "1")),
    "scheduler_abort_race" => Some(scheduler_abort_race()),
    "scheduler_idle" => Some(scheduler_idle()),
    "to_vec" if p.len() == 2 => Some(to_vec(p[1], false)),
    "to_vec_rewake" if p.len() == 2 => Some(to_vec(p[1], true)),
    "workers" if p.len() == 3 => Some(workers(p[1], p[2])),
    "workers_cold" if p.len() == 3 => Some(workers_cold(p[1], p[2])),
    "resub" if p.len() == 2 => Some(resub(p[1])),
    "merge3" => Some(merge3()),
    _ => None,
  }
}
