//! engine P runner: executes one concurrent scenario of the catalogue on the
//! instrumented copy under a schedule dictated on stdin and prints the trace
//! of synchronisation events + harness markers as one JSON line per
//! execution.  The SMT side (engine_p/mcr.py) owns every scheduling decision.
//!
//!   engine_p list
//!   engine_p run <scenario>      (stdin: one JSON request per line)
//!       {"order": [[task,tidx],...], "policy": 0|1|2, "hash_seed": n, "max_steps": n}

#![allow(dead_code)]
mod scen;

use another_rxrust::vf::rt;
use serde_json::{json, Value};
use std::io::{BufRead, Write};

fn ev_json(e: &rt::Event) -> Value {
  use rt::Ev::*;
  let (k, extra) = match &e.ev {
    Req { obj, write } => ("req", json!({"obj": obj, "w": write})),
    TryReq { obj, write } => ("req", json!({"obj": obj, "w": write, "try": true})),
    TryFail { obj, write } => ("tryfail", json!({"obj": obj, "w": write})),
    Acq { obj, write, ver, rec } => ("acq", json!({"obj": obj, "w": write, "ver": ver, "rec": rec})),
    Rel { obj, write } => ("rel", json!({"obj": obj, "w": write})),
    WaitBegin { cv, mutex } => ("wait+", json!({"cv": cv, "obj": mutex})),
    WaitEnd { cv, mutex, by, ver } => ("wait-", json!({"cv": cv, "obj": mutex, "by": by, "ver": ver})),
    Notify { cv, woke, all } => ("notify", json!({"cv": cv, "woke": woke, "all": all})),
    Spawn { child } => ("spawn", json!({"child": child})),
    Begin => ("begin", json!({})),
    End { panicked } => ("end", json!({"panicked": panicked})),
    JoinReq { target } => ("join?", json!({"target": target})),
    Joined { target } => ("joined", json!({"target": target})),
    SleepBegin { nanos } => ("sleep+", json!({"nanos": nanos})),
    SleepEnd { now } => ("sleep-", json!({"now": now})),
    Mark { tag } => ("mark", json!({"tag": tag})),
  };
  json!({"t": e.task, "i": e.tidx, "k": k, "x": extra, "site": e.site, "clk": e.clock})
}

fn main() {
  std::panic::set_hook(Box::new(|_| {}));
  let args: Vec<String> = std::env::args().collect();
  if args.len() >= 2 && args[1] == "list" {
    for (n, props) in scen::catalogue() {
      println!("{} {}", n, props.join(","));
    }
    return;
  }
  if args.len() < 3 || args[1] != "run" {
    eprintln!("usage: engine_p list | run <scenario>");
    std::process::exit(2);
  }
  let name = args[2].clone();
  if scen::build(&name).is_none() {
    eprintln!("unknown scenario {}", name);
    std::process::exit(2);
  }
  let stdin = std::io::stdin();
  let stdout = std::io::stdout();
  for line in stdin.lock().lines() {
    let line = match line {
      Ok(l) => l,
      Err(_) => break,
    };
    if line.trim().is_empty() {
      continue;
    }
    let req: Value = serde_json::from_str(&line).unwrap_or(json!({}));
    let mut cfg = rt::Config::default();
    cfg.record_trace = true;
    cfg.max_steps = req["max_steps"].as_u64().unwrap_or(20_000);
    cfg.policy = req["policy"].as_u64().unwrap_or(0) as u8;
    if let Some(h) = req["hash_seed"].as_u64() {
      cfg.hash_seed = h;
    }
    if let Some(o) = req["order"].as_array() {
      cfg.forced_order = o
        .iter()
        .filter_map(|p| Some((p.get(0)?.as_u64()? as usize, p.get(1)?.as_u64()? as usize)))
        .collect();
    }
    let body = scen::build(&name).unwrap();
    let r = rt::run(cfg, body);
    let abort = match &r.abort {
      None => Value::Null,
      Some(rt::Abort::Fuel) => json!({"kind": "fuel"}),
      Some(rt::Abort::StepLimit { live }) => json!({"kind": "steplimit", "live": live}),
      Some(rt::Abort::Deadlock(b)) => json!({
        "kind": "deadlock",
        "blocked": b.iter().map(|(t, k, d, s)| json!({"t": t, "kind": k, "detail": d, "site": s})).collect::<Vec<_>>()
      }),
    };
    let out = json!({
      "scenario": name,
      "trace": r.trace.iter().map(ev_json).collect::<Vec<_>>(),
      "abort": abort,
      "panics": r.panics.iter().map(|(t, m)| json!({"t": t, "msg": m})).collect::<Vec<_>>(),
      "steps": r.steps,
      "tasks": r.tasks,
      "clock": r.final_clock,
      "diverged": r.forced_divergence,
    });
    let mut o = stdout.lock();
    let _ = writeln!(o, "{}", out);
    let _ = o.flush();
  }
}
