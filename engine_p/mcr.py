#!/usr/bin/env python3-vt
"""engine P: SMT synthesis of thread schedules over traces of the real code.

The scenario runner (engine_p, built on the instrumented copy of /repo) executes a concurrent scenario
natively under a baton scheduler and prints the trace of synchronisation events (lock request / grant /
release with the version of the protected object, condvar wait / notify, spawn / begin / end / join,
virtual-time sleeps) plus harness markers.  This driver
  * encodes a trace as a maximal-causal-model constraint system over integer order variables (z3),
  * asks *violation queries*: is there a feasible re-ordering of the same reads-from class in which the
    property's ordering condition on markers is broken (predictive analysis),
  * asks *exploration queries*: can critical section r observe the version written by w' instead
    (reads-from flip, causal prefix kept consistent)?  Each model is a schedule; it is forced on the real
    code, recorded, and fed back (maximal causality reduction, Huang PLDI'15),
  * evaluates run-time monitors (conservation, FIFO, futures, live tasks, all-blocked) on every explored
    execution,
until no new reads-from class is found (exhaustive within the scenario's bounds) or the budget is used.

usage: mcr.py check <prop> --bin <engine_p> [--tier quick|thorough] [--seed n] [--jobs n] [--out f.json]
       mcr.py replay <replay.json> --bin <engine_p>
"""
import json
import os
import subprocess
import sys
import time
from collections import defaultdict

import z3

STRATEGY = os.environ.get('P_STRATEGY', 'mixed')

# ---------------------------------------------------------------------------
# runner
# ---------------------------------------------------------------------------


class Runner:
    def __init__(self, binary, scenario):
        self.p = subprocess.Popen([binary, 'run', scenario], stdin=subprocess.PIPE, stdout=subprocess.PIPE,
                                  stderr=subprocess.DEVNULL, text=True, bufsize=1)
        self.scenario = scenario
        self.executions = 0

    def run(self, order=None, policy=0, max_steps=20000, hash_seed=None):
        req = {'policy': policy, 'max_steps': max_steps}
        if order is not None:
            req['order'] = order
        if hash_seed is not None:
            req['hash_seed'] = hash_seed
        self.p.stdin.write(json.dumps(req) + '\n')
        self.p.stdin.flush()
        line = self.p.stdout.readline()
        if not line:
            raise RuntimeError('runner died on %s' % self.scenario)
        self.executions += 1
        return json.loads(line)

    def close(self):
        try:
            self.p.stdin.close()
            self.p.wait(timeout=5)
        except Exception:
            self.p.kill()


# ---------------------------------------------------------------------------
# trace model
# ---------------------------------------------------------------------------


class Section:
    __slots__ = ('task', 'obj', 'write', 'acq', 'rel', 'ver', 'reads', 'ordinal', 'mutex')

    def __init__(self, task, obj, write, acq, ver, mutex):
        self.task, self.obj, self.write, self.acq, self.ver = task, obj, write, acq, ver
        self.rel = None
        self.reads = ver - 1 if write else ver
        self.ordinal = 0
        self.mutex = mutex


class Trace:
    def __init__(self, res):
        self.res = res
        self.ev = res['trace']
        self.n = len(self.ev)
        self.by_task = defaultdict(list)
        for ix, e in enumerate(self.ev):
            self.by_task[e['t']].append(ix)
        self.prev = {}
        for t, ixs in self.by_task.items():
            for a, b in zip(ixs, ixs[1:]):
                self.prev[b] = a
        self.sections = []
        self.sec_of_acq = {}
        self._sections()
        self.spawn_of = {e['x']['child']: ix for ix, e in enumerate(self.ev) if e['k'] == 'spawn'}
        self.marks = [(ix, e['t'], e['x']['tag']) for ix, e in enumerate(self.ev) if e['k'] == 'mark']
        self.meta = {}
        for _, _, tag in self.marks:
            if tag.startswith('meta '):
                self.meta = json.loads(tag[5:])

    def _sections(self):
        open_ = defaultdict(list)  # (task,obj) -> stack of sections / None for recursive reads
        count = defaultdict(int)
        for ix, e in enumerate(self.ev):
            k, t, x = e['k'], e['t'], e['x']
            if k == 'acq':
                if x.get('rec'):
                    open_[(t, x['obj'])].append(None)
                    continue
                s = Section(t, x['obj'], x['w'], ix, x['ver'], False)
            elif k == 'wait-':
                s = Section(t, x['obj'], True, ix, x['ver'], True)
            elif k in ('rel', 'wait+'):
                st = open_[(t, x['obj'])]
                if st:
                    s0 = st.pop()
                    if s0 is not None:
                        s0.rel = ix
                continue
            else:
                continue
            s.ordinal = count[(t, s.obj)]
            count[(t, s.obj)] += 1
            open_[(t, s.obj)].append(s)
            self.sections.append(s)
            self.sec_of_acq[ix] = s

    def writer_of(self, s):
        """the write section whose version s observed (None = initial value)"""
        if s.reads == 0:
            return None
        for w in self.sections:
            if w.obj == s.obj and w.write and w.ver == s.reads:
                return w
        return None

    def class_signature(self):
        """reads-from class + per-task control flow"""
        rf = []
        for s in self.sections:
            w = self.writer_of(s)
            rf.append((s.task, s.obj, s.ordinal, s.write, (w.task, w.ordinal) if w else None))
        flow = tuple((t, tuple((self.ev[i]['k'], self.ev[i]['site']) for i in ixs)) for t, ixs in sorted(self.by_task.items()))
        ab = self.res['abort']
        return (tuple(sorted(rf, key=str)), flow, json.dumps(ab, sort_keys=True) if ab else None)


# ---------------------------------------------------------------------------
# SMT encoding
# ---------------------------------------------------------------------------


class Encoder:
    def __init__(self, tr, stats):
        self.tr = tr
        self.stats = stats
        self.O = [z3.Int('o%d' % i) for i in range(tr.n)]

    def base(self, inc):
        """must-happen-before + lock exclusion restricted to the events in `inc` (a per-task prefix-closed set)"""
        tr, O = self.tr, self.O
        c = []
        for t, ixs in tr.by_task.items():
            prev = None
            for i in ixs:
                if i not in inc:
                    break
                if prev is not None:
                    c.append(O[prev] < O[i])
                else:
                    c.append(O[i] >= 0)
                prev = i
        # spawn / join
        for ix in inc:
            e = tr.ev[ix]
            if e['k'] == 'spawn':
                ch = e['x']['child']
                b = tr.by_task.get(ch)
                if b and b[0] in inc:
                    c.append(O[ix] < O[b[0]])
            elif e['k'] == 'joined':
                tg = tr.by_task.get(e['x']['target'])
                if tg:
                    c.append(O[tg[-1]] < O[ix])
            elif e['k'] == 'wait-':
                nt = self.notify_of(ix)
                if nt is not None:
                    c.append(O[nt] < O[ix])
                    wb = self.wait_begin_of(ix)
                    if wb is not None:
                        c.append(O[wb] < O[nt])
        # virtual time: events of an earlier clock value precede events of a later one
        clocks = sorted({tr.ev[i]['clk'] for i in inc})
        if len(clocks) > 1:
            B = {ck: z3.Int('b%d' % k) for k, ck in enumerate(clocks)}
            for a, b in zip(clocks, clocks[1:]):
                c.append(B[a] < B[b])
            for i in inc:
                ck = tr.ev[i]['clk']
                j = clocks.index(ck)
                if j > 0:
                    c.append(O[i] > B[clocks[j - 1]])
                c.append(O[i] <= B[ck])
        # lock exclusion
        by_obj = defaultdict(list)
        for s in tr.sections:
            if s.acq in inc:
                by_obj[s.obj].append(s)
        # a failed try_* found the lock held: it falls inside a conflicting section of another task
        for ix in inc:
            e = tr.ev[ix]
            if e['k'] != 'tryfail':
                continue
            alts = []
            for s in by_obj.get(e['x']['obj'], []):
                if s.task == e['t'] or not (s.write or e['x']['w']):
                    continue
                if s.rel is not None and s.rel in inc:
                    alts.append(z3.And(O[s.acq] < O[ix], O[ix] < O[s.rel]))
                else:
                    alts.append(O[s.acq] < O[ix])
            c.append(z3.Or(alts) if alts else z3.BoolVal(False))
        for obj, ss in by_obj.items():
            for a in range(len(ss)):
                for b in range(a + 1, len(ss)):
                    s1, s2 = ss[a], ss[b]
                    if s1.task == s2.task or not (s1.write or s2.write):
                        continue
                    alts = []
                    if s1.rel is not None and s1.rel in inc:
                        alts.append(O[s1.rel] < O[s2.acq])
                    if s2.rel is not None and s2.rel in inc:
                        alts.append(O[s2.rel] < O[s1.acq])
                    c.append(z3.Or(alts) if alts else z3.BoolVal(False))
        return c

    def notify_of(self, wait_end_ix):
        e = self.tr.ev[wait_end_ix]
        by, cv, me = e['x']['by'], e['x']['cv'], e['t']
        best = None
        for i in range(wait_end_ix - 1, -1, -1):
            f = self.tr.ev[i]
            if f['k'] == 'notify' and f['x']['cv'] == cv and f['t'] == by and f['x']['woke'] == me:
                best = i
                break
        return best

    def wait_begin_of(self, wait_end_ix):
        me = self.tr.ev[wait_end_ix]['t']
        for i in range(wait_end_ix - 1, -1, -1):
            f = self.tr.ev[i]
            if f['t'] == me and f['k'] == 'wait+':
                return i
        return None

    def rf_consistency(self, inc, skip=None):
        """every section whose acquire is in `inc` observes the version it observed in the trace"""
        tr, O = self.tr, self.O
        c = []
        writes = defaultdict(list)
        for s in tr.sections:
            if s.write and s.acq in inc:
                writes[s.obj].append(s)
        for s in tr.sections:
            if s.acq not in inc or (skip is not None and any(s is k for k in skip)):
                continue
            w = tr.writer_of(s)
            if w is not None:
                if w.acq not in inc or w.rel is None or w.rel not in inc:
                    c.append(z3.BoolVal(False))
                    continue
                if w.task != s.task:
                    c.append(O[w.rel] < O[s.acq])
            for w2 in writes[s.obj]:
                if w2 is s or w2 is w:
                    continue
                alts = []
                if w is not None and w2.rel is not None and w2.rel in inc:
                    alts.append(O[w2.rel] < O[w.acq])
                if s.rel is not None and s.rel in inc:
                    alts.append(O[s.rel] < O[w2.acq])
                elif s.rel is None or s.rel not in inc:
                    # s is still open at the end of the prefix: later writers come after its acquire
                    alts.append(O[s.acq] < O[w2.acq]) if not s.write else None
                alts = [a for a in alts if a is not None]
                c.append(z3.Or(alts) if alts else z3.BoolVal(False))
        return c

    def solve(self, constraints, want_order_of):
        s = z3.Solver()
        s.set('timeout', 20000)
        s.add(constraints)
        t0 = time.time()
        r = s.check()
        self.stats['solver_s'] += time.time() - t0
        self.stats['queries'] += 1
        if r == z3.sat:
            self.stats['sat'] += 1
            m = s.model()
            vals = []
            for i in want_order_of:
                v = m.eval(self.O[i], model_completion=True).as_long()
                vals.append((v, i))
            vals.sort()
            return [(self.tr.ev[i]['t'], self.tr.ev[i]['i']) for _, i in vals]
        if r == z3.unsat:
            self.stats['unsat'] += 1
        else:
            self.stats['unknown'] += 1
        return None

    # ---- causal prefix of a set of events
    def closure(self, seeds, free=()):
        tr = self.tr
        need = set()
        work = list(seeds)
        pos_in_task = {}
        for t, ixs in tr.by_task.items():
            for p, i in enumerate(ixs):
                pos_in_task[i] = (t, p)
        upto = defaultdict(lambda: -1)  # task -> max position needed

        def require(ix):
            t, p = pos_in_task[ix]
            if p > upto[t]:
                for q in range(upto[t] + 1, p + 1):
                    j = tr.by_task[t][q]
                    need.add(j)
                    work.append(j)
                upto[t] = p

        for s in seeds:
            require(s)
        while work:
            ix = work.pop()
            e = tr.ev[ix]
            k = e['k']
            if k == 'begin':
                j = tr.spawn_of.get(e['t'])
                if j is not None:
                    require(j)
            elif k == 'joined':
                tg = tr.by_task.get(e['x']['target'])
                if tg:
                    require(tg[-1])
            elif k == 'wait-':
                nt = self.notify_of(ix)
                if nt is not None:
                    require(nt)
            if ix in tr.sec_of_acq and not any(tr.sec_of_acq[ix] is f for f in free):
                w = tr.writer_of(tr.sec_of_acq[ix])
                if w is not None and w.rel is not None:
                    require(w.rel)
                elif w is not None:
                    require(w.acq)
        return need


# ---------------------------------------------------------------------------
# monitors (evaluated on the actual order of an executed trace)
# ---------------------------------------------------------------------------


def parse_marks(tr):
    out = []
    for ix, t, tag in tr.marks:
        p = tag.split(' ')
        out.append((ix, t, p))
    return out


def monitors(tr, props):
    """returns list of (property, signature, message)"""
    v = []
    meta = tr.meta
    kind = meta.get('kind', '')
    marks = parse_marks(tr)
    ab = tr.res['abort']
    # ---- C07: nothing blocks forever
    if ab and ab['kind'] == 'deadlock':
        lockers = [b for b in ab['blocked'] if b['kind'] in ('lock', 'join')]
        if any(b['kind'] == 'lock' for b in ab['blocked']):
            sites = sorted({b['site'] for b in ab['blocked'] if b['kind'] == 'lock'})
            v.append(('C07', 'deadlock:lock@' + ','.join(sites), 'tasks wait on each other\'s locks: %s' % json.dumps(ab['blocked'])))
        elif lockers and kind not in ('workers',):
            # a join that never returns because the joined task waits on a condvar forever
            pass
    if ab and ab['kind'] == 'steplimit' and kind != 'workers':
        v.append(('C07', 'livelock:steplimit', 'step budget exhausted, live tasks %s' % ab.get('live')))
    for p in tr.res['panics']:
        v.append(('C07', 'panic:' + p['msg'][:60], 'task %s panicked: %s' % (p['t'], p['msg'][:200])))
    # ---- callbacks per observer
    cbs = defaultdict(list)  # obs -> [(ix_begin, ix_end, task, kind, val)]
    open_cb = {}
    emits = {}  # (kind,val) -> (ix_begin, ix_end, src, task)
    calls = {}
    for ix, t, p in marks:
        if p[0] == 'cb+':
            open_cb[(t, p[1])] = (ix, p[2], p[3])
        elif p[0] == 'cb-':
            b = open_cb.pop((t, p[1]), None)
            if b:
                cbs[p[1]].append((b[0], ix, t, p[2], int(p[3])))
        elif p[0] == 'emit+':
            emits[(p[2], int(p[3]), p[1])] = [ix, None, p[1], t]
        elif p[0] == 'emit-':
            k = (p[2], int(p[3]), p[1])
            if k in emits:
                emits[k][1] = ix
        elif p[0] in ('call+', 'call-'):
            calls.setdefault((p[1], p[2]), [None, None])[0 if p[0] == 'call+' else 1] = ix
    emit_begin_of_val = {}
    for (k, val, src), (b, e_, s_, t_) in emits.items():
        if k == 'n':
            emit_begin_of_val[val] = b

    def src_val(val):
        # zip packs two values
        return val

    for obs, lst in cbs.items():
        lst.sort()
        terms = [c for c in lst if c[3] in ('c', 'e')]
        # C19 / C11: at most one terminal
        if len(terms) > 1:
            v.append(('C19', 'two-terminals', 'observer %s received %d terminal notifications' % (obs, len(terms))))
            v.append(('C11', 'two-terminals', 'observer %s received %d terminal notifications' % (obs, len(terms))))
        if terms:
            t_end = terms[0][1]
            for c in lst:
                if c[0] > t_end and c[3] == 'n':
                    eb = emit_begin_of_val.get(c[4])
                    if kind == 'comb2' and meta.get('comb') == 'zip':
                        eb = min(emit_begin_of_val.get(c[4] // 100, 1 << 60), emit_begin_of_val.get(c[4] % 100, 1 << 60))
                    if eb is not None and eb > t_end:
                        v.append(('C19', 'item-after-terminal', 'observer %s: item %d whose emission started after the terminal callback had returned was delivered' % (obs, c[4])))
                    v.append(('C11', 'item-after-complete', 'observer %s: item %d delivered after the terminal' % (obs, c[4])))
        # overlapping callbacks on one observer (C09)
        if kind == 'sched_op':
            tasks = {c[2] for c in lst}
            if len(tasks) > 1:
                v.append(('C09', 'callbacks-on-several-threads', 'observer %s called on tasks %s' % (obs, sorted(tasks))))
            for (k_, val_, src_), (b_, e_, s_, t_) in emits.items():
                if src_ == 'fb':
                    continue  # pushed by the subscriber's own callback, which runs on the worker
                if t_ in tasks and meta.get('variant', '').startswith('observe_on'):
                    v.append(('C09', 'callback-on-emitting-thread', 'callback ran on the emitting task %d' % t_))
                    break
    # ---- C05 / C09: nothing starts to be emitted after unsubscribe returned and is delivered
    for (api, ident), (cb_, ce_) in calls.items():
        if api == 'unsubscribe' and ce_ is not None:
            for c in cbs.get(ident, []):
                if c[3] == 'n':
                    eb = emit_begin_of_val.get(c[4])
                    if eb is not None and eb > ce_:
                        v.append(('C05', 'delivered-after-unsubscribe', 'item %d: emission began after unsubscribe() returned, still delivered' % c[4]))
                        v.append(('C09', 'delivered-after-unsubscribe', 'item %d: emission began after unsubscribe() returned, still delivered' % c[4]))
                elif c[0] > ce_:
                    pass
    finished = ab is None
    # ---- conservation (only for executions that ran to the end)
    if finished and kind == 'comb2':
        comb, post, end2 = meta['comb'], meta['post'], meta['end2']
        got = [c for c in cbs.get('A', [])]
        items = [c[4] for c in got if c[3] == 'n']
        terms = [c for c in got if c[3] in ('c', 'e')]
        p1, p2 = meta['sources']['p1'], meta['sources']['p2']
        if end2 == 'c' and meta.get('end1', 'c') == 'c':
            limit = {'take1': 1, 'take2': 2}.get(post)
            if limit is not None and len(items) > limit:
                v.append(('C11', 'take-overrun', 'take(%d) delivered %d items %s' % (limit, len(items), items)))
            if comb in ('merge', 'concat') and limit is None:
                if sorted(items) != sorted(p1 + p2) and comb == 'merge':
                    v.append(('C11', 'merge-items', 'merge delivered %s, inputs %s %s' % (items, p1, p2)))
                for src in (p1, p2):
                    sub = [x for x in items if x in src]
                    if comb == 'merge' and sub != src:
                        v.append(('C11', 'merge-order', 'per-source order broken: %s' % items))
                if comb == 'concat':
                    # p2 is hot: items it emitted before p1 completed are legitimately lost; what is delivered is ordered
                    if [x for x in items if x in p1] != p1 or any(items.index(a) > items.index(b) for a in p1 for b in p2 if a in items and b in items):
                        v.append(('C11', 'concat-order', 'concat delivered %s' % items))
                if comb == 'merge' and (len(terms) != 1 or terms[0][3] != 'c' or (got and got[-1][3] != 'c')):
                    v.append(('C11', 'merge-complete', 'merge: terminal events %s, last=%s' % ([t[3] for t in terms], got[-1][3] if got else None)))
            if comb == 'zip' and limit is None:
                # the statement fixes WHICH tuples are delivered (the i-th items paired), each once; two threads
                # that each popped a complete row may deliver them in either order (pop under the lock, emit outside)
                exp = [a * 100 + b for a, b in zip(p1, p2)]
                if sorted(items) != sorted(exp):
                    v.append(('C11', 'zip-tuples', 'zip delivered %s, the tuples pairing the i-th items are %s' % (items, exp)))
            if comb == 'amb' and limit is None:
                if items and not (items == p1 or items == p2 or all(x in p1 for x in items) or all(x in p2 for x in items)):
                    v.append(('C11', 'amb-two-winners', 'amb let two inputs through: %s' % items))
    if finished and kind == 'merge3':
        got = cbs.get('A', [])
        items = [c[4] for c in got if c[3] == 'n']
        allv = sum(meta['sources'].values(), [])
        if sorted(items) != sorted(allv):
            v.append(('C11', 'merge-items', 'merge of three delivered %s, inputs %s' % (items, meta['sources'])))
        for name, src in meta['sources'].items():
            if [x for x in items if x in src] != src:
                v.append(('C11', 'merge-order', 'per-source order broken: %s' % items))
        terms = [c[3] for c in got if c[3] in ('c', 'e')]
        if terms != ['c'] or (got and got[-1][3] != 'c'):
            v.append(('C11', 'merge-complete', 'merge of three: terminals %s, last %s' % (terms, got[-1][3] if got else None)))
    if finished and kind == 'subj_join':
        subj = meta['subject']
        srcs = meta['sources']
        allv = sum(srcs.values(), [])
        A = [c[4] for c in cbs.get('A', []) if c[3] == 'n']
        J = [c[4] for c in cbs.get('J', []) if c[3] == 'n']
        L = [c[4] for c in cbs.get('L', []) if c[3] == 'n']
        init = [0] if subj == 'behavior' else []
        if sorted(A) != sorted(init + allv):
            v.append(('C12', 'stable-observer', 'stable observer received %s, pushed %s' % (A, allv)))
        # entitlement by time: an item whose emission began after `subscribe` returned must reach the joiner;
        # an item whose emission ended before `unsubscribe` was called must have reached the leaver, one whose
        # emission began after it returned must not
        sub_end = calls.get(('subscribe', 'J'), [None, None])[1]
        un_beg, un_end = calls.get(('unsubscribe', 'L'), [None, None])
        for (k_, val_, src_), (b_, e_, s_, t_) in emits.items():
            if k_ != 'n':
                continue
            if sub_end is not None and b_ > sub_end and val_ not in J:
                v.append(('C12', 'joiner-missed-item', 'joining observer missed item %d pushed after its subscribe() had returned (got %s)' % (val_, J)))
            if un_beg is not None and e_ is not None and e_ < un_beg and val_ not in L:
                v.append(('C12', 'leaver-missed-item', 'leaving observer missed item %d pushed before unsubscribe() was called (got %s)' % (val_, L)))
            if un_end is not None and b_ > un_end and val_ in L:
                v.append(('C12', 'leaver-late-item', 'leaving observer received item %d pushed after unsubscribe() had returned' % val_))
        for name, src in srcs.items():
            if [x for x in A if x in src] != src:
                v.append(('C12', 'stable-observer-order', 'stable observer: %s out of order: %s' % (name, A)))
            ls = [x for x in L if x in src]
            if ls != src[:len(ls)]:
                v.append(('C12', 'leaver-prefix', 'leaving observer got %s of %s: not a prefix' % (ls, src)))
            js = [x for x in J if x in src]
            if subj == 'subject' and js != src[len(src) - len(js):]:
                v.append(('C12', 'joiner-suffix', 'joining observer got %s of %s: not a suffix' % (js, src)))
            if subj == 'replay' and js != src:
                # classify: an item missing / an item twice / wrong order (after removing repetitions)
                first = []
                for x in js:
                    if x not in first:
                        first.append(x)
                if any(x not in js for x in src):
                    v.append(('C12', 'replay-missing-item', 'late subscriber to the ReplaySubject got %s of %s: an item was never delivered' % (js, src)))
                elif len(js) != len(set(js)):
                    v.append(('C12', 'replay-duplicate', 'late subscriber to the ReplaySubject got %s of %s: an item was delivered twice' % (js, src)))
                elif first != src:
                    v.append(('C12', 'replay-order', 'late subscriber to the ReplaySubject got %s of %s: out of push order' % (js, src)))
        if subj == 'behavior':
            # a value, then every later value with no gap: J must be a suffix of the global push order as seen by A
            if not J:
                v.append(('C12', 'behavior-no-value', 'late subscriber to the BehaviorSubject received nothing'))
            elif len(J) != len(set(J)) or any(x not in A for x in J):
                v.append(('C12', 'behavior-duplicate', 'late subscriber to the BehaviorSubject: %s' % J))
            else:
                for name, src in srcs.items():
                    js = [x for x in J if x in src]
                    if js != src[len(src) - len(js):]:
                        # the first value handed over may be an older one of this producer only if nothing newer was skipped
                        first = J[0]
                        rest = [x for x in J[1:] if x in src]
                        tail = src[len(src) - len(rest):] if rest else []
                        if rest != tail:
                            v.append(('C12', 'behavior-gap', 'late subscriber to the BehaviorSubject got %s; producer %s pushed %s' % (J, name, src)))
    if finished and kind == 'subj_race':
        A = cbs.get('A', [])
        if len([c for c in A if c[3] in ('c', 'e')]) != 1:
            v.append(('C12', 'terminal-count', 'observer got %d terminals' % len([c for c in A if c[3] in ('c', 'e')])))
    if finished and kind == 'sched_op':
        A = cbs.get('A', [])
        items = [c[4] for c in A if c[3] == 'n']
        src = meta['sources']['p1']
        end1 = meta['end1']
        fb = meta.get('feedback') or None
        if fb:
            # the subscriber pushed `fb` into the source from its callback for item 1: delivered once, after 1
            if items.count(fb) != 1 or (1 in items and items.index(fb) < items.index(1)):
                v.append(('C09', 'feedback-item', 'item %d pushed from the callback for 1: delivered %s' % (fb, items)))
            items = [x for x in items if x != fb]
        if not meta.get('unsub'):
            exp = src[:meta.get('take', 99)]
            if items != exp:
                v.append(('C09', 'items', '%s delivered %s, source emitted %s' % (meta['variant'], items, src)))
            terms = [c for c in A if c[3] in ('c', 'e')]
            if meta.get('take', 99) == 99:
                if [t[3] for t in terms] != ([] if end1 == '-' else [end1]):
                    v.append(('C09', 'terminal', '%s: terminals %s expected [%s]' % (meta['variant'], [t[3] for t in terms], end1)))
            if terms and A and A[-1][3] not in ('c', 'e'):
                v.append(('C09', 'terminal-not-last', 'terminal is not the last event'))
        else:
            if items != src[:len(items)]:
                v.append(('C09', 'items-prefix', 'delivered %s is not a prefix of %s' % (items, src)))
        # never two callbacks at once
        for a in range(len(A)):
            for b in range(a + 1, len(A)):
                if A[a][1] > A[b][0]:
                    v.append(('C09', 'overlap', 'two callbacks overlap'))
    if kind == 'resub' and (finished or (ab and ab['kind'] == 'deadlock' and all(b['kind'] == 'condvar' for b in ab['blocked']))):
        exp = meta['items']
        op = meta['op']
        for obs in meta['observers']:
            got = cbs.get(obs, [])
            items = [c[4] for c in got if c[3] == 'n']
            terms = [c[3] for c in got if c[3] in ('c', 'e')]
            want = exp if op != 'debounce' else None
            want = ((exp + exp) if obs == 'A' else exp) if op == 'subscribe_on_retry' else want  # only the very first attempt fails
            if want is not None and items != want:
                v.append(('C14', 'resubscription-items', 'subscriber %s of %s received %s, a sole subscriber receives %s' % (obs, op, items, want)))
            if terms != ['c']:
                v.append(('C14', 'resubscription-terminal', 'subscriber %s of %s received terminals %s' % (obs, op, terms)))
    if kind == 'scheduler':
        posted = {}
        ran = []
        abort_end = None
        abort_begin = None
        running = None
        for ix, t, p in marks:
            if p[0] == 'call-' and p[1] == 'post':
                posted[int(p[2])] = ix
            if p[0] == 'call+' and p[1] == 'abort':
                abort_begin = ix
            if p[0] == 'call-' and p[1] == 'abort':
                abort_end = ix
            if p[0] == 'task+':
                if running is not None:
                    v.append(('C08', 'two-at-once', 'task %s started while %s was running' % (p[1], running)))
                running = p[1]
                ran.append((ix, t, int(p[1])))
            if p[0] == 'task-':
                running = None
        ids = [r[2] for r in ran]
        if len(ids) != len(set(ids)):
            v.append(('C08', 'ran-twice', 'a task ran twice: %s' % ids))
        wt = {r[1] for r in ran}
        if len(wt) > 1:
            v.append(('C08', 'several-workers', 'tasks ran on tasks %s' % sorted(wt)))
        posters = {t for ix, t, p in marks if p[0] == 'call+' and p[1] == 'post'}
        if wt & posters:
            v.append(('C08', 'ran-on-poster', 'a task ran on the posting thread'))
        # FIFO per poster and in global post order
        for a in range(len(ids)):
            for b in range(a + 1, len(ids)):
                pa, pb = posted.get(ids[a]), posted.get(ids[b])
                ca = next((ix for ix, t, p in marks if p[:3] == ['call+', 'post', str(ids[a])]), None)
                cb = next((ix for ix, t, p in marks if p[:3] == ['call+', 'post', str(ids[b])]), None)
                if pb is not None and ca is not None and pb < ca:
                    v.append(('C08', 'fifo', 'task %d (posted after %d had been posted) ran first' % (ids[a], ids[b])))
        if abort_end is not None:
            # one task may already have been taken from the queue when abort ran; a second one must not start
            late = [tid for ix, t, tid in ran if ix > abort_end]
            if len(late) > 1:
                v.append(('C08', 'ran-after-abort', 'tasks %s were taken from the queue after abort() had returned' % late))
        # no lost wake-up: a task posted with no abort pending is eventually run
        if finished or (ab and ab['kind'] == 'deadlock'):
            for tid, pix in posted.items():
                if tid not in ids and (abort_begin is None or meta.get('quiescent_before_abort')):
                    v.append(('C08', 'lost-task', 'task %d posted with no abort pending, never run' % tid))
            if ab and ab['kind'] == 'deadlock':
                waiting = [b for b in ab['blocked'] if b['kind'] == 'condvar']
                if waiting and abort_end is not None:
                    v.append(('C08', 'worker-survives-abort', 'worker still waits on the queue after abort() returned: %s' % json.dumps(waiting)))
                if waiting and abort_end is None and any(tid not in ids for tid in posted):
                    v.append(('C08', 'lost-wakeup', 'worker sleeps although a task is queued and no abort is pending'))
    if kind == 'to_vec':
        ready = [p for ix, t, p in marks if p[0] == 'ready']
        src = meta['sources']['p1']
        end1 = meta['end1']
        term_emit = next((ix for ix, t, p in marks if p[0] == 'emit+' and p[2] in ('c', 'e')), None)
        ready_ix = next((ix for ix, t, p in marks if p[0] == 'ready'), None)
        if ab and ab['kind'] == 'deadlock':
            v.append(('C18', 'lost-wakeup', 'the future never became ready: %s' % json.dumps(ab['blocked'])))
        elif finished:
            if not ready:
                v.append(('C18', 'never-ready', 'poll loop ended without a result'))
            else:
                if ready_ix is not None and term_emit is not None and ready_ix < term_emit:
                    v.append(('C18', 'ready-too-early', 'the future was ready before the source terminated'))
                if end1 == 'c' and ' '.join(ready[0][1:]) != 'ok %s' % str(src).replace(',', ','):
                    if ready[0][1] != 'ok' or json.loads(' '.join(ready[0][2:])) != src:
                        v.append(('C18', 'wrong-result', 'future yielded %s expected ok %s' % (ready[0][1:], src)))
                if end1 == 'e' and ready[0][1:] != ['err', '900']:
                    v.append(('C18', 'wrong-result', 'future yielded %s expected err 900' % (ready[0][1:],)))
    if kind == 'resub' and ab and ab['kind'] in ('deadlock', 'steplimit'):
        v.append(('C15', 'worker-survives-resubscription', 'worker tasks still alive after two finished subscriptions of %s: %s' % (meta['op'], json.dumps(ab)[:300])))
    if kind == 'workers':
        # every task other than main must have ended by the quiescence check
        if ab and ab['kind'] in ('deadlock', 'steplimit'):
            live = ab.get('live') or [b['t'] for b in ab.get('blocked', [])]
            v.append(('C15', 'worker-survives', 'worker tasks still alive after the subscription ended (%s/%s): %s' % (meta['op'], meta['cause'], json.dumps(ab)[:300])))
        else:
            q = next((ix for ix, t, p in marks if p[0] == 'quiescence-check'), None)
            if q is not None:
                for t, ixs in tr.by_task.items():
                    if t != 0 and ixs[-1] > q:
                        v.append(('C15', 'worker-late-exit', 'task %d ended only after several periods' % t))
    return [x for x in v if x[0] in props]


# ---------------------------------------------------------------------------
# predictive violation queries
# ---------------------------------------------------------------------------


def violation_queries(tr, enc, props):
    """ordering conditions on markers that would break the property in the same reads-from class;
    returns list of (prop, signature, order)"""
    out = []
    marks = parse_marks(tr)
    inc = set(range(tr.n))
    base = None
    emits = {}
    delivered = defaultdict(list)
    term_end = {}
    unsub_end = {}
    for ix, t, p in marks:
        if p[0] == 'emit+' and p[2] == 'n':
            emits[int(p[3])] = ix
        elif p[0] == 'cb+' and p[2] == 'n':
            delivered[p[1]].append((int(p[3]), ix))
        elif p[0] == 'cb-' and p[2] in ('c', 'e') and p[1] not in term_end:
            term_end[p[1]] = ix
        elif p[0] == 'call-' and p[1] == 'unsubscribe':
            unsub_end[p[2]] = ix
    targets = []
    if 'C19' in props or 'C11' in props:
        for obs, te in term_end.items():
            for val, cbix in delivered.get(obs, []):
                eb = emits.get(val)
                if eb is not None and not (eb > te):
                    targets.append(('C19', 'item-after-terminal', te, eb))
    if 'C05' in props or 'C09' in props:
        for obs, ue in unsub_end.items():
            for val, cbix in delivered.get(obs, []):
                eb = emits.get(val)
                if eb is not None and not (eb > ue):
                    targets.append(('C05', 'delivered-after-unsubscribe', ue, eb))
    if 'C12' in props and tr.meta.get('kind') == 'subj_join':
        emit_end = {}
        sub_end = None
        un_beg = None
        for ix, t, p in marks:
            if p[0] == 'emit-' and p[2] == 'n':
                emit_end[int(p[3])] = ix
            elif p[0] == 'call-' and p[1] == 'subscribe' and p[2] == 'J':
                sub_end = ix
            elif p[0] == 'call+' and p[1] == 'unsubscribe' and p[2] == 'L':
                un_beg = ix
        gotJ = {v for v, _ in delivered.get('J', [])}
        gotL = {v for v, _ in delivered.get('L', [])}
        for val, eb in emits.items():
            # a joiner is entitled to what is pushed after its subscribe() returned
            if sub_end is not None and val not in gotJ and not (eb > sub_end):
                targets.append(('C12', 'joiner-missed-item', sub_end, eb))
            # a leaver is entitled to what was completely pushed before unsubscribe() was called
            if un_beg is not None and val not in gotL and val in emit_end and not (emit_end[val] < un_beg):
                targets.append(('C12', 'leaver-missed-item', emit_end[val], un_beg))
            if val in gotL and 'L' in unsub_end and not (eb > unsub_end['L']):
                targets.append(('C12', 'leaver-late-item', unsub_end['L'], eb))
    for prop, sig, first, then in targets[:12]:
        if base is None:
            base = enc.base(inc) + enc.rf_consistency(inc)
        order = enc.solve(base + [enc.O[first] < enc.O[then]], range(tr.n))
        if order is not None:
            out.append((prop, sig, order))
    return out


def lock_cycle_queries(tr, enc):
    """C07: two tasks each holding one lock and requesting the other's (potential deadlock), same class"""
    out = []
    # (task, held section, requested lock req-event)
    reqs = []
    for s in tr.sections:
        if s.rel is None:
            continue
        for j in tr.by_task[s.task]:
            if s.acq < j < s.rel and tr.ev[j]['k'] == 'req' and tr.ev[j]['x']['obj'] != s.obj:
                reqs.append((s, j))
    tried = 0
    for a in range(len(reqs)):
        for b in range(a + 1, len(reqs)):
            (s1, r1), (s2, r2) = reqs[a], reqs[b]
            if s1.task == s2.task:
                continue
            o1, o2 = tr.ev[r1]['x']['obj'], tr.ev[r2]['x']['obj']
            if o1 != s2.obj or o2 != s1.obj:
                continue
            w1, w2 = tr.ev[r1]['x']['w'], tr.ev[r2]['x']['w']
            if not ((w1 or s2.write) and (w2 or s1.write)):
                continue
            tried += 1
            if tried > 6:
                return out
            # schedule both up to their requests while both hold their first lock
            seeds = [r1, r2]
            inc = enc.closure(seeds)
            cons = enc.base(inc) + enc.rf_consistency(inc)
            order = enc.solve(cons, sorted(inc))
            if order is not None:
                out.append(('C07', 'lock-cycle', order))
    return out


# ---------------------------------------------------------------------------
# exploration
# ---------------------------------------------------------------------------


def flips(tr, enc, tried, limit):
    """reads-from flips: (order) lists leading to new classes"""
    out = []
    trace_id = hash(tr.class_signature())
    writes = defaultdict(list)
    for s in tr.sections:
        if s.write:
            writes[s.obj].append(s)
    for r in tr.sections:
        cur = tr.writer_of(r)
        cands = [w for w in writes[r.obj] if w is not r and w is not cur and w.task != r.task and w.rel is not None]
        # r's own task: only its latest earlier write can be observed (when every foreign write in between moves after r)
        own = [w for w in writes[r.obj] if w.task == r.task and w.rel is not None and w.rel < r.acq]
        if own and own[-1] is not cur:
            cands.append(own[-1])
        cands.append(None)  # initial version
        for w in cands:
            if w is None and cur is None:
                continue
            key = (r.task, r.obj, r.ordinal, (w.task, w.ordinal) if w else None, prefix_key(tr, r))
            # the minimal-prefix query is asked once per key; the trace-prefix query depends on the whole
            # trace and is asked once per (key, reads-from class)
            keyb = (key, trace_id)
            seen_a = key in tried
            if seen_a and keyb in tried:
                continue
            if len(out) >= limit:
                return out
            # causal prefix: everything before r's request in r's task, w up to its release
            req = r.acq - 1 if r.acq > 0 and tr.ev[r.acq - 1]['t'] == r.task and tr.ev[r.acq - 1]['k'] == 'req' else r.acq
            pred = [i for i in tr.by_task[r.task] if i < req]
            seeds = ([pred[-1]] if pred else []) + ([w.rel] if w is not None else [])
            inc = enc.closure(seeds, free=(r, w)) if seeds else set()
            if r.acq in inc:
                continue  # w causally depends on r (in this trace: the pair stays open for other traces)
            tried.add(key)
            tried.add(keyb)
            inc2 = set(inc)
            # r's request/acquire take part as events
            for i in tr.by_task[r.task]:
                if i <= r.acq and i not in inc2:
                    inc2.add(i)
            # (a) minimal causal prefix; (b) everything that preceded r in the trace, re-orderable but
            # reads-from consistent (reaches classes in which two reads change at once, e.g. a lost wake-up)
            inc3 = set(inc2)
            forbidden = [s2 for s2 in writes[r.obj] if s2 is not w and s2 is not r and s2.task != r.task
                         and (w is None or s2.acq > w.acq)]
            last = []
            for t, ixs in tr.by_task.items():
                if t == r.task:
                    continue
                cut = r.acq
                for s2 in forbidden:
                    if s2.task == t:
                        q = s2.acq - 1 if s2.acq > 0 and tr.ev[s2.acq - 1]['t'] == t and tr.ev[s2.acq - 1]['k'] == 'req' else s2.acq
                        cut = min(cut, q)
                keep = [i for i in ixs if i < cut]
                if keep:
                    last.append(keep[-1])
            if last:
                inc3 |= enc.closure(last, free=(r, w))
            if any(s2.acq in inc3 for s2 in forbidden):
                inc3 = inc2
            variants = ([] if seen_a else [inc2]) + ([] if inc3 == inc2 else [inc3])
            for incv in variants:
                cons = enc.base(incv) + enc.rf_consistency(incv, skip=(r, w))
                O = enc.O
                if w is not None:
                    cons.append(O[w.rel] < O[r.acq])
                for w2 in writes[r.obj]:
                    if w2 is r or w2 is w or w2.acq not in incv:
                        continue
                    if w is not None and w2.rel is not None and w2.rel in incv:
                        cons.append(z3.Or(O[w2.rel] < O[w.acq], O[r.acq] < O[w2.acq]))
                    else:
                        cons.append(O[r.acq] < O[w2.acq])
                order = enc.solve(cons, sorted(incv))
                if order is not None:
                    out.append(order)
    # condvar: can the notification that ended a wait be issued before the wait began (and so wake nobody)?
    for ix, e in enumerate(tr.ev):
        if e['k'] != 'wait-':
            continue
        nt = enc.notify_of(ix)
        wb = enc.wait_begin_of(ix)
        if nt is None or wb is None:
            continue
        key = ('notify-first', e['t'], tr.ev[wb]['i'], tr.ev[nt]['t'], tr.ev[nt]['i'])
        if key in tried:
            continue
        if len(out) >= limit + 8:
            return out
        pw = tr.prev.get(wb)
        inc = enc.closure([nt] + ([pw] if pw is not None else []))
        if wb in inc:
            continue
        tried.add(key)
        O = enc.O
        cons = enc.base(inc) + enc.rf_consistency(inc)
        # the waiter's mutex section is still open (it ends with the wait): writers of that mutex in the prefix precede it
        cons += [O[nt] < O[wb]] + ([O[pw] < O[wb]] if pw is not None else []) + [O[i] < O[wb] for i in inc]
        order = enc.solve(cons, sorted(inc) + [wb])
        if order is not None:
            out.append(order)
    # try_read / try_write / try_lock that succeeded: can it be made to find the lock held?
    for r in tr.sections:
        rq = tr.prev.get(r.acq)
        if rq is None or tr.ev[rq]['k'] != 'req' or not tr.ev[rq]['x'].get('try'):
            continue
        for s2 in tr.sections:
            if s2.obj != r.obj or s2.task == r.task or not (s2.write or r.write):
                continue
            key = ('try', r.task, r.obj, r.ordinal, s2.task, s2.ordinal, prefix_key(tr, r))
            if key in tried:
                continue
            if len(out) >= limit + 8:
                return out
            inc = enc.closure([rq, s2.acq])
            if r.acq in inc or (s2.rel is not None and s2.rel in inc):
                continue
            tried.add(key)
            O = enc.O
            cons = enc.base(inc) + enc.rf_consistency(inc)
            # the try (its outcome event takes r.acq's place in the task) happens while s2 is open
            cons += [O[rq] < O[r.acq], O[s2.acq] < O[r.acq]]
            cons += [O[i] < O[r.acq] for i in inc]
            order = enc.solve(cons, sorted(inc) + [r.acq])
            if order is not None:
                out.append(order)
    return out


def prefix_key(tr, r):
    # identity of the prefix of r's task up to r (kinds + observed versions)
    ks = []
    for i in tr.by_task[r.task]:
        if i >= r.acq:
            break
        e = tr.ev[i]
        if e['k'] in ('acq', 'wait-'):
            ks.append((e['x']['obj'], e['x'].get('ver')))
    return hash(tuple(ks))


def explore(binary, scenario, props, budget, seed):
    stats = {'executions': 0, 'classes': 0, 'queries': 0, 'sat': 0, 'unsat': 0, 'unknown': 0, 'solver_s': 0.0,
             'diverged': 0, 'events_max': 0, 'flip_models': 0, 'predictive_models': 0, 'exhaustive': True,
             'pending': 0, 'sites': set()}
    runner = Runner(binary, scenario)
    seen = set()
    tried = set()
    violations = {}
    samples = []
    work = [('policy', p) for p in ((seed % 3), ((seed + 1) % 3), ((seed + 2) % 3))]
    t0 = time.time()
    turn = 0
    # schedules synthesised from a trace that showed something new - a sequence of callbacks, or a path through the
    # code of one task (its sequence of lock sites) not seen before - are tried first
    hi = []
    behaviours = set()
    try:
        while work or hi:
            if stats['classes'] >= budget['classes'] or time.time() - t0 > budget['seconds']:
                stats['exhaustive'] = False
                stats['pending'] = len(work) + len(hi)
                break
            turn += 1
            # two of three turns go to the schedules derived from novel traces, the third to the plain
            # first-in-first-out list (so neither starves within a class budget)
            if hi and STRATEGY != 'bfs' and (turn % 3 != 0 or not work):
                kind, payload = hi.pop(0)
            elif not work:
                break
            else:
                kind, payload = work.pop(0)
            if kind == 'policy':
                res = runner.run(policy=payload, max_steps=budget.get('max_steps', 6000))
                used_order = None
            else:
                res = runner.run(order=payload, policy=0, max_steps=budget.get('max_steps', 6000))
                used_order = payload
                if res.get('diverged') is not None:
                    stats['diverged'] += 1
            stats['executions'] += 1
            tr = Trace(res)
            stats['events_max'] = max(stats['events_max'], tr.n)
            for e in tr.ev:
                if e['site']:
                    stats['sites'].add(e['site'])
            sig = tr.class_signature()
            for prop, vsig, msg in monitors(tr, props):
                key = (prop, vsig)
                if key not in violations:
                    # deterministic replay of the very same schedule before reporting
                    order = [(e['t'], e['i']) for e in tr.ev]
                    res2 = runner.run(order=order, policy=0, max_steps=budget.get('max_steps', 6000))
                    stats['executions'] += 1
                    again = [m for m in monitors(Trace(res2), props) if (m[0], m[1]) == key]
                    violations[key] = {'scenario': scenario, 'property': prop, 'signature': vsig, 'message': msg,
                                       'order': order, 'reproduced': bool(again), 'found_by': kind}
            if sig in seen:
                continue
            seen.add(sig)
            stats['classes'] += 1
            if len(samples) < 2:
                samples.append({'scenario': scenario, 'events': tr.n, 'tasks': res['tasks'],
                                'markers': [m[2] for m in tr.marks if not m[2].startswith('meta')][:14],
                                'schedule': 'forced by SMT model' if used_order else 'base schedule'})
            if tr.n > budget.get('max_events', 1500):
                # too long for the encoder (unbounded producer): judged by the monitors only
                stats['exhaustive'] = False
                stats['oversized'] = stats.get('oversized', 0) + 1
                continue
            enc = Encoder(tr, stats)
            if res['abort'] is None:
                for prop, vsig, order in violation_queries(tr, enc, props):
                    stats['predictive_models'] += 1
                    work.insert(0, ('order', order))
                if 'C07' in props:
                    for prop, vsig, order in lock_cycle_queries(tr, enc):
                        stats['predictive_models'] += 1
                        work.insert(0, ('order', order))
            beh = tuple((m[1], m[2]) for m in tr.marks if m[2].startswith(('cb+', 'task+', 'ready')))
            flows = {(t, tuple((tr.ev[i]['k'], tr.ev[i]['site']) for i in ixs)) for t, ixs in tr.by_task.items()}
            novel = beh not in behaviours or not flows <= behaviours
            behaviours.add(beh)
            behaviours |= flows
            for order in flips(tr, enc, tried, budget['flips_per_trace']):
                stats['flip_models'] += 1
                (hi if novel and stats['classes'] > 3 else work).append(('order', order))
    finally:
        runner.close()
    stats['sites'] = sorted(stats['sites'])
    return stats, list(violations.values()), samples


def scenarios_for(binary, prop):
    out = subprocess.run([binary, 'list'], stdout=subprocess.PIPE, text=True).stdout
    res = []
    for line in out.splitlines():
        name, props = line.split(' ')
        if prop in props.split(','):
            res.append(name)
    return res


def worker(args):
    binary, scenario, props, budget, seed = args
    try:
        try:
            st, viol, samples = explore(binary, scenario, props, budget, seed)
        except Exception:
            # a runner process that died (loaded machine) is retried once before it counts as an error
            time.sleep(1.0)
            st, viol, samples = explore(binary, scenario, props, budget, seed)
        return scenario, st, viol, samples, None
    except Exception as e:  # infrastructure error
        import traceback
        return scenario, None, [], [], '%s: %s' % (e, traceback.format_exc()[-400:])


def main():
    a = sys.argv[1:]

    def opt(k, d=None):
        return a[a.index(k) + 1] if k in a else d
    binary = opt('--bin')
    if a[0] == 'replay':
        v = json.load(open(a[1]))
        r = Runner(binary, v['scenario'])
        ok = 0
        for _ in range(2):
            res = r.run(order=v['order'], policy=0)
            tr = Trace(res)
            ms = [m for m in monitors(tr, {v['property']}) if m[1] == v['signature']]
            for m in ms[:1]:
                print('replay (forced schedule, instrumented build): %s %s: %s' % m)
            ok += 1 if ms else 0
        r.close()
        print('REPRODUCED' if ok == 2 else 'not reproduced')
        sys.exit(1 if ok == 2 else 0)
    prop = a[1]
    tier = opt('--tier', 'quick')
    seed = int(opt('--seed', '0'))
    jobs = int(opt('--jobs', '8'))
    only = opt('--scenario')
    scen = scenarios_for(binary, prop)
    if only:
        scen = [s for s in scen if s.startswith(only)]
    if prop == 'C07' and tier == 'quick':
        # every scenario carries the deadlock monitors; the quick tier takes a seed-selected half
        scen = [s for i, s in enumerate(scen) if (i + seed) % 2 == 0]
    # the class budget is the binding one (deterministic); the wall-clock cap only guards against a loaded machine
    # quick class budgets per property: small catalogues of small scenarios afford more classes per scenario
    qc = {'C12': 300, 'C18': 300, 'C08': 150, 'C11': 100, 'C19': 80}.get(prop, 60)
    budget = {'classes': int(os.environ.get('P_CLASSES', qc)), 'seconds': 400, 'flips_per_trace': int(os.environ.get('P_FLIPS','40'))} if tier == 'quick' else {'classes': 1500, 'seconds': 1800, 'flips_per_trace': 400}
    # wall-clock guard for the whole property: the scenarios share `jobs` processes, so each gets its share of the
    # deadline (a scenario stopped by it is reported as not exhaustive, never as a pass of more than it explored)
    deadline = float(opt('--deadline', '0') or 0)
    if deadline > 0 and scen:
        rounds = (len(scen) + jobs - 1) // jobs
        budget['seconds'] = max(60, min(budget['seconds'], int(deadline / rounds)))
    import multiprocessing as mp
    t0 = time.time()
    with mp.Pool(jobs) as pool:
        results = pool.map(worker, [(binary, s, {prop}, budget, seed) for s in scen], chunksize=1)
    tot = {'executions': 0, 'classes': 0, 'queries': 0, 'sat': 0, 'unsat': 0, 'unknown': 0, 'solver_s': 0.0, 'diverged': 0,
           'events_max': 0, 'flip_models': 0, 'predictive_models': 0, 'pending': 0}
    viol, samples, errors, sites, per = [], [], [], set(), {}
    exhaustive = True
    for scenario, st, vs, sm, err in results:
        if err:
            errors.append('%s: %s' % (scenario, err))
            continue
        for k in tot:
            if k == 'events_max':
                tot[k] = max(tot[k], st[k])
            else:
                tot[k] += st[k]
        exhaustive = exhaustive and st['exhaustive']
        per[scenario] = {'classes': st['classes'], 'executions': st['executions'], 'exhaustive': st['exhaustive']}
        viol += vs
        samples += sm[:1]
        sites |= set(st['sites'])
    out = dict(tot, property=prop, tier=tier, scenarios=len(scen), exhaustive=exhaustive, violations=viol, samples=samples[:8],
               errors=errors, sites=sorted(sites), per_scenario=per, wall_s=time.time() - t0,
               bounds='scenarios of 2-4 tasks with <= 3 emissions per producer; lock-operation granularity; '
                      'budget per scenario: %d reads-from classes / %d s' % (budget['classes'], budget['seconds']))
    s = json.dumps(out, indent=1)
    if opt('--out'):
        open(opt('--out'), 'w').write(s)
    else:
        print(s)
    sys.exit(2 if errors else 0)


if __name__ == '__main__':
    main()
