//! C02 - single-source operators and creation functions compute their
//! ReactiveX function; compositions behave as compositions.

use super::{Plan, Tier};
use crate::explore::{Harness, Verdict};
use crate::hlib::*;
use crate::ops::{instantiate, OpKind, ALL_OPS};
use crate::sym::{self, Sym};
use another_rxrust::prelude::*;
use std::sync::Arc;

pub struct C02 {
  pub ops: Vec<OpKind>,
  pub max_len: usize,
  /// 0 = symbolic script through Observable::create; 1 = creation functions
  pub src_mode: usize,
}

/// a source under test together with the stream it must produce
pub fn creation_source(pfx: &str) -> (Obs, RStream, String) {
  let kind = sym::choose(&format!("{}.kind", pfx), 12);
  let x = Sym::var(&format!("{}.x", pfx), 5);
  let e = Sym::var(&format!("{}.e", pfx), 77);
  match kind {
    0 => (observables::just(x.clone()), RStream::done(vec![x]), "just".into()),
    1 => {
      let n = sym::choose(&format!("{}.n", pfx), 4);
      let v: Vec<Sym> = (0..n).map(|i| Sym::var(&format!("{}.i{}", pfx, i), i as i64)).collect();
      (observables::from_iter(v.clone().into_iter()), RStream::done(v), format!("from_iter({})", n))
    }
    2 => {
      let a = sym::choose(&format!("{}.a", pfx), 3) as i64;
      let n = sym::choose(&format!("{}.n", pfx), 4) as i64;
      (
        observables::range(a, n).map(|v: i64| Sym::konst(v)),
        RStream::done((a..a + n).map(Sym::konst).collect()),
        format!("range({},{})", a, n),
      )
    }
    3 => (observables::empty(), RStream::done(vec![]), "empty".into()),
    4 => (observables::never(), RStream { items: vec![], end: REnd::Silent }, "never".into()),
    5 => (observables::error(rx_err(&e)), RStream { items: vec![], end: REnd::Error(e) }, "error".into()),
    6 => {
      let x2 = x.clone();
      (observables::defer(move || observables::just(x2.clone())), RStream::done(vec![x]), "defer(just)".into())
    }
    7 => {
      let x2 = x.clone();
      (observables::start(move || x2.clone()), RStream::done(vec![x]), "start".into())
    }
    8 => {
      if sym::choose(&format!("{}.ok", pfx), 2) == 0 {
        (observables::from_result::<Sym, Payload>(Ok(x.clone())), RStream::done(vec![x]), "from_result(Ok)".into())
      } else {
        (
          observables::from_result::<Sym, Payload>(Err(Payload(e.clone()))),
          RStream { items: vec![], end: REnd::Error(e) },
          "from_result(Err)".into(),
        )
      }
    }
    10 => (utils::Something::success(x.clone()).proceed(), RStream::done(vec![x]), "something(ok)".into()),
    11 => (utils::Something::<Sym>::error(rx_err(&e)).proceed(), RStream { items: vec![], end: REnd::Error(e) }, "something(err)".into()),
    _ => {
      let n = sym::choose(&format!("{}.n", pfx), 4);
      (
        observables::repeat(x.clone()).take(n + 1),
        RStream::done((0..n + 1).map(|_| x.clone()).collect()),
        format!("repeat.take({})", n + 1),
      )
    }
  }
}

impl Harness for C02 {
  fn name(&self) -> String {
    let ops: Vec<&str> = self.ops.iter().map(|o| o.name()).collect();
    format!("C02/{}/{}/L{}", if self.src_mode == 0 { "script" } else { "creation" }, ops.join("+"), self.max_len)
  }
  fn run(&self) -> Verdict {
    let (mut o, mut r, src_desc) = if self.src_mode == 0 {
      let script = sym_script("s", self.max_len, true);
      (cold(script.clone(), None), stream_of(&script), format!("create[{}]", script_short(&script)))
    } else {
      creation_source("s")
    };
    let insts: Vec<_> = self.ops.iter().enumerate().map(|(i, k)| instantiate(*k, &format!("o{}", i))).collect();
    let mut side = None;
    for (i, inst) in insts.iter().enumerate() {
      if let (Some(s), true) = (&inst.side, i + 1 == insts.len()) {
        side = Some((s.clone(), r.clone()));
      }
      o = (inst.real)(o);
      r = (inst.refr)(r);
    }
    let rec = Recorder::new();
    let sub = rec.subscribe(&o);
    let out = rec.take();
    let labels: Vec<String> = insts.iter().map(|i| i.label.clone()).collect();
    let sig = format!("ops={};src={}", labels.join("|"), if self.src_mode == 0 { "script".to_string() } else { src_desc.clone() });
    let mut v = verdict_from(&out, &r, &sig, &src_desc);
    if v.structural.is_none() {
      if let Some((s, input)) = side {
        let (p2, st2) = compare(&s.take(), &input, &format!("{};role=tap-side-effects", sig));
        if st2.is_some() {
          v.structural = st2;
          v.signature = format!("{};role=tap-side-effects", sig);
        } else if let (Some(a), Some(b)) = (v.prop, p2) {
          v.prop = Some(sym::t_and(vec![a, b]));
        }
      }
    }
    drop(sub);
    v
  }
}

/// window_with_count / group_by: every inner observable is subscribed on its own and must deliver
/// its own items followed by its own terminal (the flattening adapter of the catalogue cannot see
/// an inner observable that is never terminated)
pub struct Nested {
  pub group_by: bool,
  pub max_len: usize,
}

impl Harness for Nested {
  fn name(&self) -> String {
    format!("C02/nested/{}/L{}", if self.group_by { "group_by" } else { "window_with_count" }, self.max_len)
  }
  fn run(&self) -> Verdict {
    use std::sync::Mutex;
    let script = sym_script("s", self.max_len, true);
    let src = cold(script.clone(), None);
    let stream = stream_of(&script);
    let n = 1 + sym::choose("n", 3);
    let c = Sym::var("c", 1);
    let inners: Arc<Mutex<Vec<Recorder>>> = Arc::new(Mutex::new(vec![]));
    let outer = Recorder::new();
    let i2 = inners.clone();
    let keep: Arc<Mutex<Vec<Subscription<'static>>>> = Arc::new(Mutex::new(vec![]));
    let k2 = keep.clone();
    let o: Observable<'static, Obs> = if self.group_by {
      let c2 = c.clone();
      src.group_by(move |x: Sym| c2.sym_lt(&x, "key"))
    } else {
      src.window_with_count(n)
    };
    let (oe, oc) = (outer.on_error(), outer.on_complete());
    let _sub = o.subscribe(
      move |w: Obs| {
        let r = Recorder::new();
        let s = r.subscribe(&w);
        i2.lock().unwrap().push(r);
        k2.lock().unwrap().push(s);
      },
      oe,
      oc,
    );
    // reference: the partition of the items into inner streams, each ending like the source
    // (a window that was closed by the count completes)
    let mut exp: Vec<RStream> = vec![];
    if self.group_by {
      let mut keys: Vec<bool> = vec![];
      for x in stream.items.iter() {
        let k = c.sym_lt(x, "ref");
        let ix = match keys.iter().position(|y| *y == k) {
          Some(i) => i,
          None => {
            keys.push(k);
            exp.push(RStream { items: vec![], end: stream.end.clone() });
            keys.len() - 1
          }
        };
        exp[ix].items.push(x.clone());
      }
    } else {
      for (i, x) in stream.items.iter().enumerate() {
        if i % n == 0 {
          exp.push(RStream { items: vec![], end: stream.end.clone() });
        }
        let l = exp.len() - 1;
        exp[l].items.push(x.clone());
        if exp[l].items.len() == n {
          exp[l].end = REnd::Complete;
        }
      }
    }
    let sig = format!("nested={}", if self.group_by { "group_by".to_string() } else { format!("window_with_count({})", n) });
    let got = inners.lock().unwrap().clone();
    let input = format!("create[{}]", script_short(&script));
    if got.len() != exp.len() {
      return Verdict {
        prop: None,
        structural: Some(format!("{} inner observables emitted, definition says {} [{}] in={}", got.len(), exp.len(), sig, input)),
        sample: String::new(),
        signature: format!("{};role=inner-count", sig),
        nontrivial: true,
        detail: vec![],
      };
    }
    let mut props = vec![];
    for (i, (r, e)) in got.iter().zip(exp.iter()).enumerate() {
      let (p, st) = compare(&r.take(), e, &format!("{};inner={}", sig, i));
      if let Some(m) = st {
        return Verdict { prop: None, structural: Some(format!("{} in={}", m, input)), sample: String::new(), signature: format!("{};role=inner-sequence", sig), nontrivial: true, detail: vec![] };
      }
      props.push(p.unwrap());
    }
    // the outer stream ends like the source
    let outer_exp = RStream { items: vec![], end: stream.end.clone() };
    let (p, st) = compare(&outer.take(), &outer_exp, &format!("{};outer", sig));
    if let Some(m) = st {
      return Verdict { prop: None, structural: Some(format!("{} in={}", m, input)), sample: String::new(), signature: format!("{};role=outer-terminal", sig), nontrivial: true, detail: vec![] };
    }
    props.push(p.unwrap());
    Verdict {
      prop: Some(sym::t_and(props)),
      structural: None,
      sample: format!("{} in={} inners={}", sig, input, got.iter().map(|r| format!("[{}]", short_log(&r.take()))).collect::<Vec<_>>().join(" ")),
      signature: format!("{};role=inner-values", sig),
      nontrivial: !exp.is_empty(),
      detail: vec![],
    }
  }
}

/// defer: "do not create the Observable until the observer subscribes, and create a fresh
/// Observable for each observer" - the factory counts its calls
pub struct DeferFresh;

impl Harness for DeferFresh {
  fn name(&self) -> String {
    "C02/defer-fresh/-/L0".into()
  }
  fn run(&self) -> Verdict {
    use std::sync::Mutex;
    let calls = Arc::new(Mutex::new(0usize));
    let c2 = calls.clone();
    let x = Sym::var("x", 3);
    let x2 = x.clone();
    let o = observables::defer(move || {
      let k = {
        let mut c = c2.lock().unwrap();
        *c += 1;
        *c
      };
      // the k-th Observable emits x + k
      observables::just(x2.add(&Sym::konst(k as i64)))
    });
    let sig = "ops=defer(counting factory)".to_string();
    let before = *calls.lock().unwrap();
    if before != 0 {
      return Verdict {
        prop: None,
        structural: Some(format!("the factory ran {} time(s) before anybody subscribed [{}]", before, sig)),
        sample: String::new(),
        signature: format!("{};role=factory-ran-early", sig),
        nontrivial: true,
        detail: vec![],
      };
    }
    let n = 1 + sym::choose("subs", 3);
    let mut props = vec![];
    let mut outs = vec![];
    for k in 1..=n {
      let rec = Recorder::new();
      let _s = rec.subscribe(&o);
      let exp = RStream::done(vec![x.add(&Sym::konst(k as i64))]);
      let (p, st) = compare(&rec.take(), &exp, &sig);
      if let Some(m) = st {
        return Verdict { prop: None, structural: Some(m), sample: String::new(), signature: format!("{};role=fresh-per-subscriber", sig), nontrivial: true, detail: vec![] };
      }
      props.push(p.unwrap());
      outs.push(short_log(&rec.take()));
    }
    Verdict {
      prop: Some(sym::t_and(props)),
      structural: None,
      sample: format!("{} subscribers={} got={:?}", sig, n, outs),
      signature: format!("{};role=fresh-per-subscriber", sig),
      nontrivial: true,
      detail: vec![],
    }
  }
}

fn mk(ops: &[OpKind], max_len: usize, src_mode: usize) -> Arc<dyn Harness> {
  Arc::new(C02 { ops: ops.to_vec(), max_len, src_mode })
}

pub fn plan(tier: Tier, seed: u64) -> Plan {
  let mut h: Vec<Arc<dyn Harness>> = vec![];
  let (l1, l2) = match tier {
    Tier::Quick => (4, 3),
    Tier::Thorough => (8, 4),
  };
  for k in ALL_OPS {
    h.push(mk(&[*k], l1, 0));
    h.push(mk(&[*k], 0, 1));
  }
  h.push(Arc::new(DeferFresh));
  h.push(Arc::new(Nested { group_by: false, max_len: l1 }));
  h.push(Arc::new(Nested { group_by: true, max_len: l1 }));
  // depth 2: quick = a seed-selected third, thorough = all pairs
  let mut idx = 0u64;
  for a in ALL_OPS {
    for b in ALL_OPS {
      idx += 1;
      if tier == Tier::Quick && (idx + seed) % 3 != 0 {
        continue;
      }
      h.push(mk(&[*a, *b], l2, 0));
    }
  }
  if tier == Tier::Thorough {
    let core = [OpKind::Take, OpKind::Skip, OpKind::Filter, OpKind::Map, OpKind::Scan, OpKind::TakeWhile, OpKind::DistinctUntilChanged, OpKind::Reduce];
    for a in core {
      for b in core {
        for c in core {
          h.push(mk(&[a, b, c], 3, 0));
        }
      }
    }
  }
  Plan {
    harnesses: h,
    max_paths: if tier == Tier::Quick { 400 } else { 20000 },
    max_pc: 64,
    bounds: format!(
      "script length <= {} at depth 1, <= {} at depth 2; counts 0..5; values in [-2^20,2^20]; predicate/function families x>c, x<c, x+c, a+b with symbolic c; depth 2: {}",
      l1,
      l2,
      if tier == Tier::Quick { "seed-selected third of all operator pairs" } else { "all operator pairs + depth 3 (scripts <= 3) over take/skip/filter/map/scan/take_while/distinct_until_changed/reduce" }
    ),
  }
}

pub fn by_name(name: &str) -> Option<Arc<dyn Harness>> {
  let parts: Vec<&str> = name.split('/').collect();
  if parts.len() != 4 {
    return None;
  }
  if parts[1] == "defer-fresh" {
    return Some(Arc::new(DeferFresh));
  }
  if parts[1] == "nested" {
    return Some(Arc::new(Nested { group_by: parts[2] == "group_by", max_len: parts[3].trim_start_matches('L').parse().ok()? }));
  }
  let src_mode = if parts[1] == "script" { 0 } else { 1 };
  let ops: Option<Vec<OpKind>> = parts[2].split('+').map(OpKind::from_name).collect();
  let max_len: usize = parts[3].trim_start_matches('L').parse().ok()?;
  Some(mk(&ops?, max_len, src_mode))
}
