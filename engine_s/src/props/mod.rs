pub mod c02;
pub mod c03;
pub mod c04;
pub mod c06u;
pub mod c07;
pub mod c10;
pub mod c13;
pub mod c14;
#[cfg(feature = "instrumented")]
pub mod c16;
pub mod c17;
pub mod life;

use crate::explore::Harness;
use std::sync::Arc;

#[derive(Clone, Copy, PartialEq, Debug)]
pub enum Tier {
  Quick,
  Thorough,
}

pub struct Plan {
  pub harnesses: Vec<Arc<dyn Harness>>,
  pub max_paths: u64,
  pub max_pc: usize,
  pub bounds: String,
}

pub fn plan(prop: &str, tier: Tier, seed: u64) -> Option<Plan> {
  match prop {
    "C02" => Some(c02::plan(tier, seed)),
    "C03" => Some(c03::plan(tier, seed)),
    "C04" => Some(c04::plan(tier, seed)),
    "C14" => Some(c14::plan(tier, seed)),
    #[cfg(feature = "instrumented")]
    "C16" => Some(c16::plan(tier, seed)),
    "C07" => Some(c07::plan(tier, seed)),
    "C13" => Some(c13::plan(tier, seed)),
    "C10" => Some(c10::plan(tier, seed)),
    "C17" => Some(c17::plan(tier, seed)),
    "C01" => Some(life::plan("C01", tier, seed)),
    "C05" => Some(life::plan("C05", tier, seed)),
    "C06" => {
      let mut p = life::plan("C06", tier, seed);
      p.harnesses.extend(c06u::harnesses());
      Some(p)
    }
    _ => None,
  }
}

/// rebuild a harness from its name (replays)
pub fn by_name(name: &str) -> Option<Arc<dyn Harness>> {
  let (base, pins) = crate::explore::parse_pins(name);
  if !pins.is_empty() {
    let inner = by_name(&base)?;
    return Some(Arc::new(crate::explore::Pinned { inner, pins }));
  }
  let prop = name.split('/').next()?;
  match prop {
    "C02" => c02::by_name(name),
    "C03" => c03::by_name(name),
    "C04" => c04::by_name(name),
    "C14" => c14::by_name(name),
    #[cfg(feature = "instrumented")]
    "C16" => c16::by_name(name),
    "C07" => c07::by_name(name),
    "C13" => c13::by_name(name),
    "C10" => c10::by_name(name),
    "C17" => c17::by_name(name),
    "C06" if name.starts_with("C06/unbounded/") => c06u::by_name(name),
    "C01" | "C05" | "C06" => life::by_name(name),
    _ => None,
  }
}
