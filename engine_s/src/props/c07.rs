//! C07 (sequential half) - no call into the library blocks forever on the
//! calling thread: no self-deadlock on a lock the thread already holds, no
//! producer loop that spins on an ended subscription.
//!  * AbnormalOnly: the explorations of C05, C10, C13 (and a slice of
//!    C01/C06) re-run with only the abnormal outcomes judged;
//!  * Reentrant: callbacks that re-enter the library on the same thread
//!    (unsubscribe their own subscription, emit into / subscribe to /
//!    terminate the subject they are being called from, connect).

use super::{Plan, Tier};
use crate::explore::{Harness, Verdict};
use crate::hlib::*;
use crate::sym::{self, burn, Sym};
use another_rxrust::prelude::*;
use std::sync::{Arc, Mutex};

pub struct AbnormalOnly {
  pub inner: Arc<dyn Harness>,
}

impl Harness for AbnormalOnly {
  fn name(&self) -> String {
    format!("C07/abn/{}", self.inner.name())
  }
  fn run(&self) -> Verdict {
    let v = self.inner.run();
    Verdict { prop: None, structural: None, sample: v.sample, signature: String::new(), nontrivial: v.nontrivial, detail: vec![] }
  }
  fn fuel(&self) -> i64 {
    self.inner.fuel()
  }
}

#[derive(Clone, Copy, Debug, PartialEq)]
pub enum Target {
  Subject,
  Behavior,
  Replay,
  Async,
  Publish,
  RefCount,
  ReplayOp,
}

const TARGETS: [Target; 7] =
  [Target::Subject, Target::Behavior, Target::Replay, Target::Async, Target::Publish, Target::RefCount, Target::ReplayOp];

pub struct Reentrant {
  pub target: Target,
}

#[derive(Clone)]
enum Sbj {
  S(subjects::Subject<'static, Sym>),
  B(subjects::BehaviorSubject<'static, Sym>),
  R(subjects::ReplaySubject<'static, Sym>),
  A(subjects::AsyncSubject<'static, Sym>),
}
impl Sbj {
  fn observable(&self) -> Obs {
    match self {
      Sbj::S(s) => s.observable(),
      Sbj::B(s) => s.observable(),
      Sbj::R(s) => s.observable(),
      Sbj::A(s) => s.observable(),
    }
  }
  fn next(&self, x: Sym) {
    match self {
      Sbj::S(s) => s.next(x),
      Sbj::B(s) => s.next(x),
      Sbj::R(s) => s.next(x),
      Sbj::A(s) => s.next(x),
    }
  }
  fn complete(&self) {
    match self {
      Sbj::S(s) => s.complete(),
      Sbj::B(s) => s.complete(),
      Sbj::R(s) => s.complete(),
      Sbj::A(s) => s.complete(),
    }
  }
}

impl Harness for Reentrant {
  fn name(&self) -> String {
    format!("C07/reentrant/{:?}", self.target)
  }
  fn fuel(&self) -> i64 {
    400
  }
  fn run(&self) -> Verdict {
    // what the callback does when it runs: 0 nothing, 1 unsubscribe own subscription,
    // 2 emit into the subject it is called from, 3 subscribe a new observer to it,
    // 4 complete it, 5 connect (connectables)
    let action = sym::choose("action", 6);
    let on = sym::choose("on", 2); // 0: in next, 1: in complete
    let pre_items = sym::choose("pre_items", 3); // items pushed before the subscriber arrives
    let post_items = sym::choose("post_items", 3);
    let finish = sym::choose("finish", 2);
    let desc = format!("target={:?} action={} on={} pre={} post={} finish={}", self.target, action, ["next", "complete"][on], pre_items, post_items, finish);
    sym::note(desc.clone());

    let sbj = match self.target {
      Target::Subject | Target::Publish | Target::RefCount | Target::ReplayOp => Sbj::S(subjects::Subject::new()),
      Target::Behavior => Sbj::B(subjects::BehaviorSubject::new(Sym::konst(-1))),
      Target::Replay => Sbj::R(subjects::ReplaySubject::new()),
      Target::Async => Sbj::A(subjects::AsyncSubject::new()),
    };
    // connectables sit on a cold synchronous source (emits inside connect / first subscribe)
    let cold_items: Vec<Ev> = vec![Ev::Next(Sym::konst(1)), Ev::Next(Sym::konst(2)), Ev::Complete];
    let mut keep: Vec<Box<dyn std::any::Any + Send + Sync>> = vec![];
    let mut connect: Option<Arc<dyn Fn() -> Subscription<'static> + Send + Sync>> = None;
    let (obs, emitter): (Obs, Option<Sbj>) = match self.target {
      Target::Publish => {
        let p = cold(cold_items.clone(), None).publish();
        let o = p.observable();
        connect = Some(Arc::new(move || p.connect()));
        (o, None)
      }
      Target::RefCount => {
        let r = cold(cold_items.clone(), None).ref_count();
        let o = r.observable();
        keep.push(Box::new(r));
        (o, None)
      }
      Target::ReplayOp => {
        let r = cold(cold_items.clone(), None).replay();
        let o = r.observable();
        keep.push(Box::new(r));
        (o, None)
      }
      _ => (sbj.observable(), Some(sbj.clone())),
    };
    if let Some(e) = &emitter {
      for i in 0..pre_items {
        e.next(Sym::konst(10 + i as i64));
      }
    }
    let my_sub: Arc<Mutex<Option<Subscription<'static>>>> = Arc::new(Mutex::new(None));
    let depth = Arc::new(Mutex::new(0usize));
    let others: Arc<Mutex<Vec<Subscription<'static>>>> = Arc::new(Mutex::new(vec![]));
    let react = {
      let my_sub = my_sub.clone();
      let depth = depth.clone();
      let others = others.clone();
      let emitter = emitter.clone();
      let obs2 = obs.clone();
      let connect = connect.clone();
      move || {
        burn();
        {
          let mut d = depth.lock().unwrap();
          if *d >= 1 {
            return; // re-enter once
          }
          *d += 1;
        }
        match action {
          1 => {
            let s = my_sub.lock().unwrap().clone();
            if let Some(s) = s {
              s.unsubscribe();
            }
          }
          2 => {
            if let Some(e) = &emitter {
              e.next(Sym::konst(99));
            }
          }
          3 => {
            let s = obs2.subscribe(|_| burn(), |_| burn(), || burn());
            others.lock().unwrap().push(s);
          }
          4 => {
            if let Some(e) = &emitter {
              e.complete();
            }
          }
          5 => {
            if let Some(c) = &connect {
              let s = c();
              others.lock().unwrap().push(s);
            }
          }
          _ => {}
        }
        *depth.lock().unwrap() -= 1;
      }
    };
    let r1 = react.clone();
    let r2 = react.clone();
    let s = obs.subscribe(
      move |_x: Sym| {
        if on == 0 {
          r1()
        } else {
          burn()
        }
      },
      |_e| burn(),
      move || {
        if on == 1 {
          r2()
        } else {
          burn()
        }
      },
    );
    *my_sub.lock().unwrap() = Some(s);
    if let Some(c) = &connect {
      let s = c();
      others.lock().unwrap().push(s);
    }
    if let Some(e) = &emitter {
      for i in 0..post_items {
        e.next(Sym::konst(20 + i as i64));
      }
      if finish == 1 {
        e.complete();
      }
    }
    drop(keep);
    Verdict { prop: None, structural: None, sample: desc, signature: String::new(), nontrivial: action != 0, detail: vec![] }
  }
}

/// a subscriber behind a pipeline whose `next` callback emits into (or completes) the subject the
/// pipeline is built on - "emitting into a subject they are being called from"
pub struct Feedback {
  pub topo: crate::topo::Topo,
}

impl Harness for Feedback {
  fn name(&self) -> String {
    format!("C07/feedback/{}", self.topo.name())
  }
  fn fuel(&self) -> i64 {
    600
  }
  fn run(&self) -> Verdict {
    let n = self.topo.n_sources();
    let sbjs: Vec<subjects::Subject<'static, Sym>> = (0..n).map(|_| subjects::Subject::new()).collect();
    let srcs: Vec<Obs> = sbjs.iter().map(|s| s.observable()).collect();
    let built = crate::topo::build(&self.topo, &srcs, "t");
    // what the callback does: 0 nothing, 1 push into source k, 2 complete source k, 3 unsubscribe itself
    let action = sym::choose("action", 4);
    let target = sym::choose("target", n);
    let on = sym::choose("on", 2);
    let desc = format!("topo={} action={} target={} on={}", built.label, action, target, ["next", "complete"][on]);
    sym::note(desc.clone());
    let depth = Arc::new(Mutex::new(0usize));
    let my_sub: Arc<Mutex<Option<Subscription<'static>>>> = Arc::new(Mutex::new(None));
    let react = {
      let sb = sbjs[target].clone();
      let depth = depth.clone();
      let my_sub = my_sub.clone();
      move || {
        burn();
        {
          let mut d = depth.lock().unwrap();
          if *d >= 1 {
            return;
          }
          *d += 1;
        }
        match action {
          1 => sb.next(Sym::konst(99)),
          2 => sb.complete(),
          3 => {
            let s = my_sub.lock().unwrap().clone();
            if let Some(s) = s {
              s.unsubscribe();
            }
          }
          _ => {}
        }
        *depth.lock().unwrap() -= 1;
      }
    };
    let (r1, r2) = (react.clone(), react.clone());
    let conn = built.extra.connect.as_ref().map(|c| c());
    let s = built.obs.subscribe(
      move |_x: Sym| {
        if on == 0 {
          r1()
        } else {
          burn()
        }
      },
      |_e| burn(),
      move || {
        if on == 1 {
          r2()
        } else {
          burn()
        }
      },
    );
    *my_sub.lock().unwrap() = Some(s);
    // drive every source: two items, then completion
    for round in 0..2 {
      for (k, sb) in sbjs.iter().enumerate() {
        sb.next(Sym::konst((10 * k + round) as i64));
      }
    }
    for sb in sbjs.iter() {
      sb.complete();
    }
    drop(conn);
    Verdict { prop: None, structural: None, sample: desc, signature: String::new(), nontrivial: action != 0, detail: vec![] }
  }
}

pub fn plan(tier: Tier, seed: u64) -> Plan {
  let mut h: Vec<Arc<dyn Harness>> = vec![];
  for t in TARGETS {
    h.push(Arc::new(Reentrant { target: t }));
  }
  for t in crate::topo::catalogue(false, false) {
    h.push(Arc::new(Feedback { topo: t }));
  }
  let mut add = |p: Plan, every: usize| {
    for (i, x) in p.harnesses.into_iter().enumerate() {
      if (i + seed as usize) % every == 0 {
        h.push(Arc::new(AbnormalOnly { inner: x }));
      }
    }
  };
  let q = tier == Tier::Quick;
  add(super::c13::plan(tier, seed), 1);
  add(super::c10::plan(tier, seed), if q { 2 } else { 1 });
  add(super::life::plan("C05", tier, seed), if q { 4 } else { 1 });
  add(super::life::plan("C01", tier, seed), if q { 8 } else { 1 });
  add(super::c14::plan(tier, seed), if q { 8 } else { 1 });
  add(super::c03::plan(tier, seed), if q { 8 } else { 1 });
  add(super::c04::plan(tier, seed), if q { 8 } else { 1 });
  Plan {
    harnesses: h,
    max_paths: if q { 600 } else { 20000 },
    max_pc: 96,
    bounds: format!(
      "single-thread: re-entrant callbacks (unsubscribe self / emit into / subscribe to / complete / connect) on the 4 subject types and publish/ref_count/replay over a synchronous source; plus the abnormal outcomes (self-deadlock, fuel, panic) of {} of the C01/C03/C04/C05/C10/C13/C14 explorations",
      if q { "a seed-selected slice" } else { "all" }
    ),
  }
}

pub fn by_name(name: &str) -> Option<Arc<dyn Harness>> {
  if let Some(r) = name.strip_prefix("C07/reentrant/") {
    let t = TARGETS.iter().copied().find(|t| format!("{:?}", t) == r)?;
    return Some(Arc::new(Reentrant { target: t }));
  }
  if let Some(r) = name.strip_prefix("C07/feedback/") {
    return Some(Arc::new(Feedback { topo: crate::topo::Topo::from_name(r)? }));
  }
  if let Some(r) = name.strip_prefix("C07/abn/") {
    let inner = super::by_name(r)?;
    return Some(Arc::new(AbnormalOnly { inner }));
  }
  None
}
