//! Lifecycle harnesses over the topology catalogue with hot, step-driven
//! sources:
//!   C01  observer contract under ill-formed sources
//!   C05  unsubscribe stops delivery / is idempotent / is_subscribed trace
//!   C06  every way a subscription ends tears down everything upstream

use super::{Plan, Tier};
use crate::explore::{Harness, Verdict};
use crate::hlib::*;
use crate::sym::{self, Sym};
use crate::topo::{self, Topo};
use std::sync::{Arc, Mutex};

pub struct Life {
  pub prop: &'static str,
  pub topo: Topo,
  pub max_steps: usize,
}

fn is_terminal(r: &Rec) -> bool {
  !matches!(r, Rec::Next(_))
}

/// contract automaton: index of the first record that breaks
/// `next* (error|complete)?`
pub fn contract_breach(log: &[Rec]) -> Option<(usize, &'static str)> {
  let mut done = false;
  for (i, r) in log.iter().enumerate() {
    if done {
      return Some((i, if is_terminal(r) { "second-terminal" } else { "item-after-terminal" }));
    }
    if is_terminal(r) {
      done = true;
    }
  }
  None
}

impl Harness for Life {
  fn name(&self) -> String {
    format!("{}/{}/L{}", self.prop, self.topo.name(), self.max_steps)
  }

  fn run(&self) -> Verdict {
    let clock = Arc::new(Mutex::new(0usize));
    let n_src = self.topo.n_sources();
    let hots: Vec<Hot> = (0..n_src).map(|_| Hot::new(clock.clone())).collect();
    let obs: Vec<Obs> = hots.iter().map(|h| h.observable()).collect();
    let built = topo::build(&self.topo, &obs, "t");
    let rec = Recorder::new();
    let mut trace: Vec<String> = vec![];
    // an unbounded retry over a source that fails inside every subscribe (directly, or through a
    // dematerialize below it) loops by definition: no greeting there
    let retrying = matches!(&self.topo, Topo::Comb { comb, .. } if matches!(comb, crate::topo::Comb::Retry | crate::topo::Comb::RetryWhen));
    // C06: one solver-chosen source may emit synchronously inside its subscribe call (an item, an item and
    // its completion, or an error): the cause then occurs while the operator is still subscribing its inputs
    let mut greeted: Option<usize> = None;
    let mut greeted_done = false;
    if self.prop == "C06" && !retrying {
      let g = sym::choose("greet.src", n_src + 1);
      if g < n_src {
        let x = Sym::var("greet.x", 5);
        let evs = match sym::choose("greet.kind", 3) {
          0 => vec![Ev::Next(x)],
          1 => {
            greeted_done = true;
            vec![Ev::Next(x), Ev::Complete]
          }
          _ => {
            greeted_done = true;
            vec![Ev::Error(Sym::var("greet.p", 66))]
          }
        };
        trace.push(format!("greeting(s{})=[{}]", g, script_short(&evs)));
        *hots[g].greeting.lock().unwrap() = evs;
        greeted = Some(g);
      }
    }
    let sig_base = format!("topo={}{}", built.label, if greeted.is_some() { ";sync-source" } else { "" });

    // connectable topologies: connect before or after the subscriber arrives
    let mut conn = None;
    let connect_first = built.extra.connect.is_some() && sym::choose("connect_first", 2) == 1;
    if connect_first {
      conn = Some((built.extra.connect.as_ref().unwrap())());
      trace.push("connect".into());
    }
    let sub = rec.subscribe(&built.obs);
    trace.push("subscribe".into());
    if !connect_first {
      if let Some(c) = &built.extra.connect {
        conn = Some(c());
        trace.push("connect".into());
      }
    }

    let fail = |role: &str, msg: String, trace: &Vec<String>, rec: &Recorder| Verdict {
      prop: None,
      structural: Some(format!("{} [{}] steps=[{}] got=[{}]", msg, sig_base, trace.join(" "), short_log(&rec.take()))),
      sample: String::new(),
      signature: format!("{};role={}", sig_base, role),
      nontrivial: true,
      detail: vec![],
    };

    let steps = sym::choose("steps", self.max_steps + 1);
    // C05/C06: where the unsubscribe is issued (steps+1 = never)
    let unsub_at = if self.prop == "C01" { usize::MAX } else { sym::choose("unsub_at", self.max_steps + 2) };
    let ill_formed = self.prop == "C01";
    let mut unsubscribed = false;
    let mut src_done = vec![false; n_src];
    if let (Some(g), true) = (greeted, greeted_done) {
      src_done[g] = true;
    }
    let mut was_subscribed_ok = true;
    let mut log_len_at_unsub = 0usize;

    // is_subscribed right after subscribe: true unless a terminal already arrived
    if self.prop == "C05" {
      let term = rec.take().iter().any(is_terminal);
      if sub.is_subscribed() == term {
        was_subscribed_ok = false;
      }
    }

    for i in 0..=steps {
      if i == unsub_at && !unsubscribed {
        if self.prop == "C05" && sym::choose("via_using", 2) == 1 {
          // dropping a utils::Using guard unsubscribes
          drop(another_rxrust::prelude::utils::Using::new(sub.clone()));
          trace.push("drop(Using)".into());
        } else {
          sub.unsubscribe();
          trace.push("unsubscribe".into());
        }
        if sym::choose("unsub_twice", 2) == 1 {
          sub.unsubscribe();
          trace.push("unsubscribe".into());
        }
        unsubscribed = true;
        log_len_at_unsub = rec.len();
        if sub.is_subscribed() {
          return fail("is_subscribed-after-unsubscribe", "is_subscribed() is true after unsubscribe()".into(), &trace, &rec);
        }
      }
      if i == steps {
        break;
      }
      let s = sym::choose(&format!("e{}.src", i), n_src);
      let ev = match sym::choose(&format!("e{}.kind", i), 3) {
        0 => Ev::Next(Sym::var(&format!("e{}.x", i), i as i64 + 1)),
        1 => Ev::Complete,
        _ => Ev::Error(Sym::var(&format!("e{}.p", i), 70 + i as i64)),
      };
      if !ill_formed {
        // well-behaved sources: nothing after their own terminal
        if src_done[s] {
          continue;
        }
        if !matches!(ev, Ev::Next(_)) {
          src_done[s] = true;
        }
      }
      let ended_before = unsubscribed || rec.take().iter().any(is_terminal);
      // C06: a source sees is_subscribed()==false before its next emission
      // once the subscription has ended (amb's losers may learn it only
      // when they try to emit)
      if self.prop == "C06" && ended_before {
        let probes = hots[s].probes();
        if probes.iter().any(|p| *p) {
          let amb_grace = built.label.contains("amb");
          if !amb_grace {
            return fail(
              "upstream-still-subscribed",
              format!("source {} still sees is_subscribed()==true after the subscription ended (probes {:?})", s, probes),
              &trace,
              &rec,
            );
          }
        }
      }
      trace.push(format!("s{}:{}", s, ev.short()));
      hots[s].emit(&ev);
      if self.prop == "C06" && ended_before {
        let probes = hots[s].probes();
        if probes.iter().any(|p| *p) {
          return fail(
            "upstream-still-subscribed-after-emit",
            format!("source {} still subscribed after emitting into an ended subscription (probes {:?})", s, probes),
            &trace,
            &rec,
          );
        }
      }
      if self.prop == "C05" && !unsubscribed {
        let term = rec.take().iter().any(is_terminal);
        if sub.is_subscribed() == term {
          was_subscribed_ok = false;
          trace.push(format!("[is_subscribed={} terminal_seen={}]", sub.is_subscribed(), term));
        }
      }
    }

    let log = rec.take();
    // ---- oracles
    if let Some((i, what)) = contract_breach(&log) {
      if self.prop == "C01" {
        return fail(what, format!("observer contract broken at event {}", i), &trace, &rec);
      }
    }
    if self.prop == "C01" {
      if log.iter().any(is_terminal) && sub.is_subscribed() {
        return fail("is_subscribed-after-terminal", "Subscription::is_subscribed() is true after the terminal".into(), &trace, &rec);
      }
    }
    if self.prop == "C05" {
      if unsubscribed && log.len() != log_len_at_unsub {
        return fail("delivered-after-unsubscribe", "callback ran after unsubscribe() had returned".into(), &trace, &rec);
      }
      if !was_subscribed_ok {
        return fail("is_subscribed-trace", "is_subscribed() disagrees with (subscribed and no terminal yet)".into(), &trace, &rec);
      }
      if log.iter().any(is_terminal) && sub.is_subscribed() {
        return fail("is_subscribed-after-terminal", "is_subscribed() is true after the terminal".into(), &trace, &rec);
      }
    }
    if self.prop == "C06" {
      let ended = unsubscribed || log.iter().any(is_terminal);
      if ended {
        // every source that was subscribed on behalf of this subscription
        for (k, h) in hots.iter().enumerate() {
          let probes = h.probes();
          let grace = built.label.contains("amb");
          if probes.iter().any(|p| *p) && !grace {
            return fail(
              "upstream-still-subscribed",
              format!("after the end, source {} still sees is_subscribed()==true (probes {:?})", k, probes),
              &trace,
              &rec,
            );
          }
        }
      }
    }
    drop(conn);
    Verdict {
      prop: None,
      structural: None,
      sample: format!("{} steps=[{}] got=[{}]", sig_base, trace.join(" "), short_log(&log)),
      signature: sig_base.clone(),
      nontrivial: !log.is_empty() || unsubscribed,
      detail: vec![],
    }
  }
}

pub fn plan(prop: &'static str, tier: Tier, seed: u64) -> Plan {
  let mut h: Vec<Arc<dyn Harness>> = vec![];
  let cat = topo::catalogue(true, true);
  let mut idx = 0u64;
  for t in cat {
    // relays built by the harness (source -> subject) and publish are not
    // torn down by their subscribers (publish: only by its connection, C13)
    if prop == "C06" {
      if let Topo::Comb { comb, .. } = &t {
        use crate::topo::Comb::*;
        if matches!(comb, ViaSubject | ViaBehavior | ViaReplay | ViaAsync | PublishConnect) {
          continue;
        }
      }
    }
    let depth2 = match &t {
      Topo::Chain(v) => v.len() > 1,
      Topo::Comb { pre, post, .. } => pre.is_some() || post.is_some(),
      _ => false,
    };
    if depth2 {
      idx += 1;
      if tier == Tier::Quick && (idx + seed) % 3 != 0 {
        continue;
      }
    }
    let n = t.n_sources();
    let steps = match (tier, n) {
      (Tier::Quick, 1) => 4,
      (Tier::Quick, _) => 3,
      (Tier::Thorough, 1) => 5,
      (Tier::Thorough, 2) => 4,
      (Tier::Thorough, _) => 4,
    };
    h.push(Arc::new(Life { prop, topo: t, max_steps: steps }));
  }
  Plan {
    harnesses: h,
    max_paths: if tier == Tier::Quick { 700 } else { 30000 },
    max_pc: 64,
    bounds: format!(
      "event sequences of <= {} events (1 source) / <= {} (2-3 hot sources), every interleaving of the sources, {}; all topologies of depth 1, depth 2 {}",
      if tier == Tier::Quick { 4 } else { 5 },
      if tier == Tier::Quick { 3 } else { 4 },
      if prop == "C01" { "kinds unconstrained (ill-formed scripts included)" } else { "well-formed per source, unsubscribe at every position and twice" },
      if tier == Tier::Quick { "seed-selected third of the stateful pairs" } else { "all stateful pairs" }
    ),
  }
}

pub fn by_name(name: &str) -> Option<Arc<dyn Harness>> {
  let parts: Vec<&str> = name.split('/').collect();
  if parts.len() != 3 {
    return None;
  }
  let prop: &'static str = match parts[0] {
    "C01" => "C01",
    "C05" => "C05",
    "C06" => "C06",
    _ => return None,
  };
  let topo = Topo::from_name(parts[1])?;
  let max_steps: usize = parts[2].trim_start_matches('L').parse().ok()?;
  Some(Arc::new(Life { prop, topo, max_steps }))
}
