//! C17 - a finished subscription releases the user's callbacks and items.
//! Every closure handed to the library and every item carries a reference
//! counted token; after the subscription has ended and the harness has
//! dropped every handle it owns, no token may be alive.

use super::{Plan, Tier};
use crate::explore::{Harness, Verdict};
use crate::hlib::*;
use crate::sym;
use crate::topo::{self, Topo};
use std::sync::{Arc, Mutex};

pub struct C17 {
  pub topo: Topo,
  pub max_len: usize,
  /// the sources are real Subjects of the crate (hot sources must not keep the observer)
  pub subject_src: bool,
}

impl Harness for C17 {
  fn name(&self) -> String {
    format!("C17/{}/{}/L{}", if self.subject_src { "subject" } else { "create" }, self.topo.name(), self.max_len)
  }
  fn run(&self) -> Verdict {
    let n = self.topo.n_sources();
    let label;
    let desc;
    let log;
    let how;
    // everything the harness owns lives in this block
    let subjects_alive;
    {
      let clock = Arc::new(Mutex::new(0usize));
      let scripts: Vec<Vec<Ev>> = (0..n).map(|k| sym_script(&format!("s{}", k), self.max_len, true)).collect();
      let hots: Vec<Hot> = (0..n).map(|_| Hot::new(clock.clone())).collect();
      let sbjs: Vec<another_rxrust::prelude::subjects::Subject<'static, crate::sym::Sym>> =
        (0..n).map(|_| another_rxrust::prelude::subjects::Subject::new()).collect();
      let srcs: Vec<Obs> =
        if self.subject_src { sbjs.iter().map(|s| s.observable()).collect() } else { hots.iter().map(|h| h.observable()).collect() };
      let built = topo::build(&self.topo, &srcs, "t");
      label = built.label.clone();
      let rec = Recorder::new();
      let conn_first = built.extra.connect.as_ref().map(|c| c());
      let sub = rec.subscribe(&built.obs);
      // drive: all sources in a solver-chosen arrival order; optionally unsubscribe midway
      let total: usize = scripts.iter().map(|s| s.len()).sum();
      let unsub_at = sym::choose("unsub_at", total + 2);
      let mut pos = vec![0usize; n];
      let mut step = 0;
      let mut order = vec![];
      let mut unsubscribed = false;
      loop {
        if step == unsub_at {
          sub.unsubscribe();
          unsubscribed = true;
          order.push("UNSUB".to_string());
        }
        let ready: Vec<usize> = (0..n).filter(|k| pos[*k] < scripts[*k].len()).collect();
        if ready.is_empty() {
          break;
        }
        let pick = ready[sym::choose(&format!("ord{}", step), ready.len())];
        let e = scripts[pick][pos[pick]].clone();
        order.push(format!("s{}:{}", pick, e.short()));
        if self.subject_src {
          match &e {
            Ev::Next(x) => sbjs[pick].next(x.clone()),
            Ev::Error(p) => sbjs[pick].error(rx_err(p)),
            Ev::Complete => sbjs[pick].complete(),
          }
        } else {
          hots[pick].emit(&e);
        }
        pos[pick] += 1;
        step += 1;
      }
      log = rec.take();
      let ended = unsubscribed || log.iter().any(|r| !matches!(r, Rec::Next(_)));
      desc = format!("topo={} order=[{}] got=[{}]", label, order.join(" "), short_log(&log));
      if !ended {
        // the property speaks about finished subscriptions only
        return Verdict { prop: None, structural: None, sample: desc, signature: String::new(), nontrivial: false, detail: vec![] };
      }
      how = if unsubscribed { "unsubscribe" } else if matches!(log.last(), Some(Rec::Complete)) { "complete" } else { "error" };
      drop(conn_first);
      drop(sub);
      drop(built);
      drop(rec);
      // create-sources: the observers a source was handed belong to the source, it drops them;
      // subject sources stay alive (held below) and must not keep anything
      drop(hots);
      drop(srcs);
      drop(scripts);
      subjects_alive = sbjs;
    }
    let alive: Vec<String> = sym::with(|c| {
      // the statement lists: the subscriber's callbacks, closures passed to operators, emitted items.
      // Source closures (Observable::create) and error payloads are not in that list.
      c.tokens
        .iter()
        .filter(|(l, w)| w.upgrade().is_some() && !l.starts_with("source:") && !l.ends_with(".err"))
        .map(|(l, _)| l.clone())
        .collect()
    });
    drop(subjects_alive);
    if !alive.is_empty() {
      let mut kinds: Vec<String> = alive.clone();
      kinds.sort();
      kinds.dedup();
      return Verdict {
        prop: None,
        structural: Some(format!("{} tokens still owned by the library after the subscription ended by {}: {:?} [{}]", alive.len(), how, kinds, desc)),
        sample: String::new(),
        signature: format!("topo={};role=leak-after-{}", label, how),
        nontrivial: true,
        detail: vec![],
      };
    }
    Verdict { prop: None, structural: None, sample: format!("{} ended by {}", desc, how), signature: format!("topo={}", label), nontrivial: true, detail: vec![] }
  }
}

pub fn plan(tier: Tier, seed: u64) -> Plan {
  let mut h: Vec<Arc<dyn Harness>> = vec![];
  let cat = topo::catalogue(true, true);
  let mut idx = 0u64;
  for t in cat {
    // a relay (source -> subject) or publish connection is a second subscription of its own
    // that has not ended when the subscriber leaves
    if let Topo::Comb { comb, .. } = &t {
      use crate::topo::Comb::*;
      if matches!(comb, ViaSubject | ViaBehavior | ViaReplay | ViaAsync | PublishConnect) {
        continue;
      }
    }
    let depth2 = match &t {
      Topo::Chain(v) => v.len() > 1,
      Topo::Comb { pre, post, .. } => pre.is_some() || post.is_some(),
      _ => false,
    };
    if depth2 {
      idx += 1;
      if tier == Tier::Quick && (idx + seed) % 4 != 0 {
        continue;
      }
    }
    let n = t.n_sources();
    let l = match (tier, n) {
      (Tier::Quick, 1) => 3,
      (Tier::Quick, _) => 2,
      (_, 1) => 4,
      (_, _) => 2,
    };
    h.push(Arc::new(C17 { topo: t.clone(), max_len: l, subject_src: false }));
    if !depth2 {
      h.push(Arc::new(C17 { topo: t, max_len: l, subject_src: true }));
    }
  }
  Plan {
    harnesses: h,
    max_paths: if tier == Tier::Quick { 400 } else { 20000 },
    max_pc: 96,
    bounds: format!(
      "all topologies of depth 1 and {} of depth 2, scripts <= 3 (1 source) / 2 (several) with all endings, unsubscribe at every position, every arrival order; sources: Observable::create and the crate's Subject",
      if tier == Tier::Quick { "a seed-selected quarter" } else { "all stateful pairs" }
    ),
  }
}

pub fn by_name(name: &str) -> Option<Arc<dyn Harness>> {
  let p: Vec<&str> = name.split('/').collect();
  if p.len() != 4 {
    return None;
  }
  Some(Arc::new(C17 { subject_src: p[1] == "subject", topo: Topo::from_name(p[2])?, max_len: p[3].trim_start_matches('L').parse().ok()? }))
}
