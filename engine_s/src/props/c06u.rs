//! C06 (unbounded producers): repeat / endless iterators / a huge range below
//! an operator that has all it needs must stop - the execution ends without
//! exhausting fuel or the step budget, and delivers the defined prefix.

use crate::explore::{Harness, Verdict};
use crate::hlib::*;
use crate::sym::{self, burn, Sym};
use another_rxrust::prelude::*;
use std::sync::Arc;

pub struct Unbounded {
  pub src: &'static str,
  pub op: &'static str,
}

const SRCS: [&str; 3] = ["repeat", "from_iter", "range"];
const OPS: [&str; 11] =
  ["take", "first", "element_at", "take_while", "contains", "all", "map_take", "take_until_sync", "zip_finite", "flat_map_leave", "resume_leave"];

impl Harness for Unbounded {
  fn name(&self) -> String {
    format!("C06/unbounded/{}/{}", self.src, self.op)
  }
  fn fuel(&self) -> i64 {
    400
  }
  fn run(&self) -> Verdict {
    let x = Sym::var("x", 4);
    // the source and the i-th item it produces
    let (src, item): (Obs, Box<dyn Fn(usize) -> Sym>) = match self.src {
      "repeat" => {
        let x2 = x.clone();
        (observables::repeat(x.clone()), Box::new(move |_| x2.clone()))
      }
      "from_iter" => (
        observables::from_iter((0i64..).map(|v| {
          burn();
          Sym::konst(v)
        })),
        Box::new(|i| Sym::konst(i as i64)),
      ),
      _ => (observables::range(0, 1 << 40).map(|v: i64| Sym::konst(v)), Box::new(|i| Sym::konst(i as i64))),
    };
    if matches!(self.op, "flat_map_leave" | "resume_leave") {
      // the subscriber leaves from inside the projection / resume function (same thread), which then hands
      // the unbounded producer to the operator: it is subscribed on behalf of a subscription that has ended
      // and must stop at its first emission
      let outer: subjects::Subject<'static, Sym> = subjects::Subject::new();
      let slot: Arc<std::sync::Mutex<Option<Subscription<'static>>>> = Arc::new(std::sync::Mutex::new(None));
      let (s2, src2) = (slot.clone(), src.clone());
      let leave = move || {
        let sub = s2.lock().unwrap().take();
        if let Some(sub) = sub {
          sub.unsubscribe();
        }
      };
      let o: Obs = if self.op == "flat_map_leave" {
        outer.observable().flat_map(move |_v: Sym| {
          leave();
          src2.clone()
        })
      } else {
        outer.observable().on_error_resume_next(move |_e| {
          leave();
          src2.clone()
        })
      };
      let rec = Recorder::new();
      let sub = rec.subscribe(&o);
      *slot.lock().unwrap() = Some(sub.clone());
      if self.op == "flat_map_leave" {
        outer.next(Sym::konst(7));
      } else {
        outer.error(rx_err(&Sym::konst(9)));
      }
      let out = rec.take();
      let sig = format!("unbounded={};op={}", self.src, self.op);
      let exp = RStream { items: vec![], end: REnd::Silent };
      let _ = &item;
      return verdict_from(&out, &exp, &sig, self.src);
    }
    let counting = self.src != "repeat";
    let n = 1 + sym::choose("n", 3);
    let c = Sym::var_in("c", 1, 4, 2);
    let (o, exp): (Obs, RStream) = match self.op {
      "take" => (src.take(n), RStream::done((0..n).map(|i| item(i)).collect())),
      "map_take" => {
        let c2 = c.clone();
        (src.map(move |v: Sym| v.add(&c2)).take(n), RStream::done((0..n).map(|i| item(i).add(&c)).collect()))
      }
      "first" => (src.first(), RStream::done(vec![item(0)])),
      "element_at" => (src.element_at(n), RStream::done(vec![item(n - 1)])),
      "take_while" if counting => {
        let c2 = c.clone();
        let k = c.v as usize;
        (src.take_while(move |v: Sym| v.sym_lt(&c2, "pred")), RStream::done((0..k).map(|i| item(i)).collect()))
      }
      "contains" if counting => (src.contains(c.clone()).map(|b: bool| Sym::konst(b as i64)), RStream::done(vec![Sym::konst(1)])),
      "all" if counting => {
        let c2 = c.clone();
        (src.all(move |v: Sym| v.sym_lt(&c2, "pred")).map(|b: bool| Sym::konst(b as i64)), RStream::done(vec![Sym::konst(0)]))
      }
      "take_until_sync" => {
        // the trigger fires at subscribe time, before the producer is subscribed
        (src.take_until(observables::just(Sym::konst(0))), RStream::done(vec![]))
      }
      "zip_finite" => {
        // a finite input zipped with the producer (subscribed second): n tuples, then take must stop the producer
        let partner = observables::from_iter((0..n as i64).map(Sym::konst));
        let i0 = item(0);
        let _ = i0;
        (
          partner.zip(&[src]).take(n).map(|v: Vec<Sym>| v[1].add(&v[0])),
          RStream::done((0..n).map(|i| item(i).add(&Sym::konst(i as i64))).collect()),
        )
      }
      // for `repeat` a predicate over the repeated value never changes its answer: not an ending cause
      _ => (src.take(n), RStream::done((0..n).map(|i| item(i)).collect())),
    };
    let rec = Recorder::new();
    let _sub = rec.subscribe(&o);
    let out = rec.take();
    let sig = format!("unbounded={};op={}", self.src, self.op);
    // the take_while/contains/all references read c's shadow for the length: pin it on the path
    if matches!(self.op, "take_while" | "contains" | "all") && counting {
      let _ = c.sym_eq(&Sym::konst(c.v), "ref");
    }
    verdict_from(&out, &exp, &sig, &format!("{} n={} c={}", self.src, n, c.v))
  }
}

pub fn harnesses() -> Vec<Arc<dyn Harness>> {
  let mut h: Vec<Arc<dyn Harness>> = vec![];
  for s in SRCS {
    for o in OPS {
      h.push(Arc::new(Unbounded { src: s, op: o }));
    }
  }
  h
}

pub fn by_name(name: &str) -> Option<Arc<dyn Harness>> {
  let p: Vec<&str> = name.split('/').collect();
  if p.len() != 4 || p[1] != "unbounded" {
    return None;
  }
  let src = SRCS.iter().find(|x| **x == p[2])?;
  let op = OPS.iter().find(|x| **x == p[3])?;
  Some(Arc::new(Unbounded { src, op }))
}
