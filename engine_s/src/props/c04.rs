//! C04 - errors travel unchanged; retry / retry_when / on_error_resume_next
//! resubscribe exactly as specified.  (Errors through every C02/C03 operator
//! at every script position are part of the C02/C03 explorations - the
//! payload term is compared there too; this file adds the recovery operators
//! over sources whose k-th subscription behaves differently.)

use super::{Plan, Tier};
use crate::explore::{Harness, Verdict};
use crate::hlib::*;
use crate::ops::{instantiate, OpKind};
use crate::sym::{self, Sym};
use another_rxrust::prelude::*;
use std::sync::{Arc, Mutex};

#[derive(Clone, Copy, Debug, PartialEq)]
pub enum Rk {
  Retry,
  RetryWhen,
  Resume,
}

pub struct C04 {
  pub kind: Rk,
  pub attempts: usize,
  pub max_len: usize,
  pub pre: Option<OpKind>,
  pub post: Option<OpKind>,
  /// subscribe the recovered observable a second time after the first subscription ended:
  /// the budget / predicate / resume function apply afresh
  pub twice: bool,
}

fn rk_name(k: Rk) -> &'static str {
  match k {
    Rk::Retry => "retry",
    Rk::RetryWhen => "retry_when",
    Rk::Resume => "on_error_resume_next",
  }
}

impl Harness for C04 {
  fn name(&self) -> String {
    format!(
      "C04/{}/A{}/{}/{}/L{}{}",
      rk_name(self.kind),
      self.attempts,
      self.pre.map(|o| o.name()).unwrap_or("-"),
      self.post.map(|o| o.name()).unwrap_or("-"),
      self.max_len,
      if self.twice { "x2" } else { "" }
    )
  }
  fn fuel(&self) -> i64 {
    3000
  }

  fn run(&self) -> Verdict {
    // one script per attempt; the last one is repeated for later attempts
    let mut scripts: Vec<Vec<Ev>> = (0..self.attempts).map(|k| sym_script(&format!("a{}", k), self.max_len, true)).collect();
    let counter = Arc::new(Mutex::new(0usize));
    let pre = self.pre.map(|p| instantiate(p, "pre"));
    let post = self.post.map(|p| instantiate(p, "post"));
    let mut label = String::new();
    if let Some(p) = &pre {
      label.push_str(&format!("{}>", p.label));
    }

    let exp: RStream;
    let mut exp2: Option<RStream> = None;
    let mut exp_subs: usize;
    let obs: Obs;
    // the stream of attempt k as the recovery operator sees it
    let attempt_stream = |k: usize, scripts: &Vec<Vec<Ev>>| -> RStream {
      let s = stream_of(&scripts[k.min(scripts.len() - 1)]);
      match &pre {
        Some(p) => (p.refr)(s),
        None => s,
      }
    };
    match self.kind {
      Rk::Retry | Rk::RetryWhen => {
        let n = if self.kind == Rk::Retry { sym::choose("retry.n", 5) } else { 0 };
        let c = Sym::var("rw.c", 100);
        // the source must not fail forever when the budget is unbounded:
        // the repeated last attempt ends without error in that case
        let unbounded = self.kind == Rk::RetryWhen || n == 0;
        if unbounded {
          let last = scripts.len() - 1;
          if let Some(Ev::Error(_)) = scripts[last].last() {
            scripts[last].pop();
            scripts[last].push(Ev::Complete);
          }
        }
        let src = cold_per_attempt(scripts.clone(), counter.clone());
        let src = match &pre {
          Some(p) => (p.real)(src),
          None => src,
        };
        obs = if self.kind == Rk::Retry {
          label.push_str(&format!("retry({})", n));
          src.retry(n)
        } else {
          label.push_str("retry_when");
          let c2 = c.clone();
          src.retry_when(move |e: RxError| match e.downcast_ref::<Payload>() {
            Some(p) => p.0.sym_lt(&c2, "pred"),
            None => false,
          })
        };
        // reference: the attempts of one subscription, starting at the source's `start`-th subscription
        let reference = |start: usize| -> (RStream, usize) {
          let mut items = vec![];
          let mut end = REnd::Silent;
          let mut k = start;
          loop {
            let s = attempt_stream(k, &scripts);
            k += 1;
            items.extend(s.items);
            match s.end {
              REnd::Error(p) => {
                let again = if self.kind == Rk::Retry { n == 0 || k - start < n } else { p.sym_lt(&c, "ref") };
                if again && k - start < 12 {
                  continue;
                }
                end = REnd::Error(p);
              }
              e => end = e,
            }
            break;
          }
          (RStream { items, end }, k)
        };
        let (first, k) = reference(0);
        if self.twice {
          exp2 = Some(reference(k).0);
        }
        let (items, end) = (first.items, first.end);
        exp_subs = k;
        exp = RStream { items, end };
      }
      Rk::Resume => {
        let src = cold_per_attempt(scripts.clone(), counter.clone());
        let src = match &pre {
          Some(p) => (p.real)(src),
          None => src,
        };
        let fam = sym::choose("resume.f", 4);
        let c = Sym::var("resume.c", 1000);
        let e2 = Sym::var("resume.e", 55);
        let script2 = sym_script("r", 2, true);
        label.push_str(&format!("on_error_resume_next(f{})", fam));
        let (c2, e3, s2) = (c.clone(), e2.clone(), script2.clone());
        obs = src.on_error_resume_next(move |e: RxError| {
          let p = e.downcast_ref::<Payload>().map(|p| p.0.clone()).unwrap_or_else(|| Sym::konst(-1).with_tag(9));
          match fam {
            0 => observables::just(p.add(&c2)),
            1 => observables::error(rx_err(&e3)),
            2 => observables::empty(),
            _ => cold(s2.clone(), None),
          }
        });
        let s = attempt_stream(0, &scripts);
        exp_subs = 1;
        let mut items = s.items;
        let end = match s.end {
          REnd::Error(p) => match fam {
            0 => {
              items.push(p.add(&c));
              REnd::Complete
            }
            1 => REnd::Error(e2),
            2 => REnd::Complete,
            _ => {
              let r = stream_of(&script2);
              items.extend(r.items);
              r.end
            }
          },
          e => e,
        };
        exp = RStream { items, end };
        if self.twice {
          exp2 = Some(exp.clone());
        }
      }
    }
    let (obs, exp) = match &post {
      Some(p) => {
        label.push_str(&format!(">{}", p.label));
        ((p.real)(obs), (p.refr)(exp))
      }
      None => (obs, exp),
    };
    let rec = Recorder::new();
    let sub = rec.subscribe(&obs);
    let out = rec.take();
    let input = scripts.iter().map(|s| format!("[{}]", script_short(s))).collect::<Vec<_>>().join(" then ");
    let sig = format!("topo={}", label);
    let mut v = verdict_from(&out, &exp, &sig, &input);
    // number of subscriptions the source saw (only meaningful when nothing
    // downstream ends the stream early and the operator below does not
    // swallow the subscription)
    if v.structural.is_none() && self.post.is_none() && self.pre.is_none() {
      let subs = *counter.lock().unwrap();
      if subs != exp_subs {
        v.structural = Some(format!("source subscribed {} times, definition says {} [{}] in={}", subs, exp_subs, sig, input));
        v.signature = format!("{};role=subscription-count", sig);
      }
    }
    exp_subs = 0;
    let _ = exp_subs;
    drop(sub);
    if let (true, Some(exp2)) = (v.structural.is_none(), exp2) {
      // the same Observable value subscribed again after the first subscription ended
      let rec2 = Recorder::new();
      let sub2 = rec2.subscribe(&obs);
      let out2 = rec2.take();
      let v2 = verdict_from(&out2, &exp2, &format!("{};role=second-subscription", sig), &input);
      drop(sub2);
      if v2.structural.is_some() {
        return v2;
      }
      v.prop = match (v.prop, v2.prop) {
        (Some(a), Some(b)) => Some(sym::t_and(vec![a, b])),
        (a, b) => a.or(b),
      };
      v.sample = format!("{} || second subscription: {}", v.sample, v2.sample);
    }
    v
  }
}

pub fn plan(tier: Tier, seed: u64) -> Plan {
  let mut h: Vec<Arc<dyn Harness>> = vec![];
  let (a, l) = if tier == Tier::Quick { (3, 2) } else { (4, 2) };
  for k in [Rk::Retry, Rk::RetryWhen, Rk::Resume] {
    h.push(Arc::new(C04 { kind: k, attempts: if k == Rk::Resume { 1 } else { a }, max_len: l, pre: None, post: None, twice: false }));
    h.push(Arc::new(C04 { kind: k, attempts: if k == Rk::Resume { 1 } else { 2 }, max_len: l, pre: None, post: None, twice: true }));
    let nest = [
      OpKind::Map,
      OpKind::Filter,
      OpKind::Take,
      OpKind::Skip,
      OpKind::TakeWhile,
      OpKind::Scan,
      OpKind::Reduce,
      OpKind::Last,
      OpKind::DistinctUntilChanged,
      OpKind::Materialize,
      OpKind::MaterializeRoundTrip,
      OpKind::Tap,
      OpKind::StartWith,
      OpKind::DefaultIfEmpty,
      OpKind::BufferWithCount,
      OpKind::Count,
    ];
    for (i, o) in nest.iter().enumerate() {
      if tier == Tier::Quick && (i as u64 + seed) % 2 != 0 {
        continue;
      }
      let at = if k == Rk::Resume { 1 } else { 2 };
      h.push(Arc::new(C04 { kind: k, attempts: at, max_len: 2, pre: Some(*o), post: None, twice: false }));
      h.push(Arc::new(C04 { kind: k, attempts: at, max_len: 2, pre: None, post: Some(*o), twice: false }));
    }
  }
  Plan {
    harnesses: h,
    max_paths: if tier == Tier::Quick { 2500 } else { 60000 },
    max_pc: 96,
    bounds: format!(
      "sources with up to {} differently behaving subscriptions, scripts of <= {} items + complete/error/silence with symbolic payloads, retry budgets 0..4, retry_when family payload<c, resume family just(payload+c)/error(e')/empty/script; nested with one of 16 C02 operators below or above ({})",
      a,
      l,
      if tier == Tier::Quick { "seed-selected half" } else { "all" }
    ),
  }
}

pub fn by_name(name: &str) -> Option<Arc<dyn Harness>> {
  let p: Vec<&str> = name.split('/').collect();
  if p.len() != 6 {
    return None;
  }
  let kind = match p[1] {
    "retry" => Rk::Retry,
    "retry_when" => Rk::RetryWhen,
    "on_error_resume_next" => Rk::Resume,
    _ => return None,
  };
  let f = |x: &str| if x == "-" { Some(None) } else { OpKind::from_name(x).map(Some) };
  Some(Arc::new(C04 {
    kind,
    attempts: p[2].trim_start_matches('A').parse().ok()?,
    pre: f(p[3])?,
    post: f(p[4])?,
    max_len: p[5].trim_start_matches('L').trim_end_matches("x2").parse().ok()?,
    twice: p[5].ends_with("x2"),
  }))
}
