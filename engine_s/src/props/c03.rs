//! C03 - combining operators interleave, pair and switch their inputs as
//! defined.  Sources are hot (driven step by step in a solver-chosen arrival
//! order) or cold (play their script at subscribe time); the reference is an
//! event-driven interpreter of the ReactiveX definitions consuming the same
//! global event order.

use super::{Plan, Tier};
use crate::explore::{Harness, Verdict};
use crate::hlib::*;
use crate::ops::{instantiate, OpKind};
use crate::sym::{self, Sym};
use crate::topo::{self, Comb, Extra};
use another_rxrust::prelude::*;
use std::sync::{Arc, Mutex};

pub struct C03 {
  pub comb: Comb,
  pub n_src: usize,
  pub max_len: usize,
  pub pre: Option<OpKind>,
  pub post: Option<OpKind>,
  /// 1 = "dynamic registration" slice: hot sources only, no error endings,
  /// the first source may emit 3 items, the others 1 (deep flat_map histories)
  pub mode: u8,
}

/// reference interpreter state
pub struct RefComb {
  pub kind: Comb,
  pub n: usize,
  pub out: Vec<Sym>,
  pub end: Option<REnd>,
  pub live: Vec<bool>,
  pub subscribed_at: Vec<Option<usize>>,
  completed: Vec<bool>,
  queues: Vec<Vec<Sym>>,
  latest: Vec<Option<Sym>>,
  active: usize,
  winner: Option<usize>,
  gate: bool,
  tuples: i32,
  outer_items: usize,
  inner_live: Vec<usize>,
  outer_done: bool,
  seq_pos: usize,
  pub hot: Vec<bool>,
  /// sequence_equal: every source completed, common prefix equal, lengths differ
  pub unequal_lengths: bool,
}

impl RefComb {
  pub fn new(kind: Comb, n: usize) -> RefComb {
    RefComb {
      kind,
      n,
      out: vec![],
      end: None,
      live: vec![false; n],
      subscribed_at: vec![None; n],
      completed: vec![false; n],
      queues: vec![vec![]; n],
      latest: vec![None; n],
      active: 0,
      winner: None,
      gate: false,
      tuples: 0,
      outer_items: 0,
      inner_live: vec![],
      outer_done: false,
      seq_pos: 0,
      hot: vec![true; n],
      unequal_lengths: false,
    }
  }

  fn finish(&mut self, e: REnd) {
    if self.end.is_none() {
      self.end = Some(e);
      for l in self.live.iter_mut() {
        *l = false;
      }
    }
  }

  /// sources to subscribe when the combinator itself is subscribed, in order
  pub fn initial(&self) -> Vec<usize> {
    match self.kind {
      Comb::Concat | Comb::FlatMap => vec![0],
      Comb::TakeUntil | Comb::SkipUntil | Comb::Sample => vec![1, 0],
      _ => (0..self.n).collect(),
    }
  }

  /// returns the sources that must be subscribed as a consequence
  pub fn on_event(&mut self, src: usize, ev: &Ev) -> Vec<usize> {
    if self.end.is_some() || !self.live[src] {
      return vec![];
    }
    let mut subs = vec![];
    match self.kind {
      Comb::Merge => match ev {
        Ev::Next(x) => self.out.push(x.clone()),
        Ev::Error(p) => self.finish(REnd::Error(p.clone())),
        Ev::Complete => {
          self.completed[src] = true;
          self.live[src] = false;
          if self.completed.iter().all(|c| *c) {
            self.finish(REnd::Complete);
          }
        }
      },
      Comb::Concat => match ev {
        Ev::Next(x) => self.out.push(x.clone()),
        Ev::Error(p) => self.finish(REnd::Error(p.clone())),
        Ev::Complete => {
          self.live[src] = false;
          self.active += 1;
          if self.active >= self.n {
            self.finish(REnd::Complete);
          } else {
            subs.push(self.active);
          }
        }
      },
      Comb::Zip => match ev {
        Ev::Next(x) => {
          self.queues[src].push(x.clone());
          while self.queues.iter().all(|q| !q.is_empty()) {
            self.tuples += 1;
            let t = self.tuples;
            for q in self.queues.iter_mut() {
              let x = q.remove(0);
              self.out.push(x.with_tag(t));
            }
          }
        }
        Ev::Error(p) => self.finish(REnd::Error(p.clone())),
        Ev::Complete => {
          self.completed[src] = true;
          self.live[src] = false;
          if self.completed.iter().all(|c| *c) {
            self.finish(REnd::Complete);
          }
        }
      },
      Comb::CombineLatest => match ev {
        Ev::Next(x) => {
          self.latest[src] = Some(x.clone());
          if self.latest.iter().all(|l| l.is_some()) {
            let mut acc = self.latest[0].clone().unwrap();
            for l in self.latest[1..].iter() {
              acc = acc.add(l.as_ref().unwrap());
            }
            self.out.push(acc);
          }
        }
        Ev::Error(p) => self.finish(REnd::Error(p.clone())),
        Ev::Complete => {
          self.completed[src] = true;
          self.live[src] = false;
          if self.completed.iter().all(|c| *c) {
            self.finish(REnd::Complete);
          }
        }
      },
      Comb::Amb => {
        if self.winner.is_none() {
          self.winner = Some(src);
        }
        if self.winner == Some(src) {
          match ev {
            Ev::Next(x) => self.out.push(x.clone()),
            Ev::Error(p) => self.finish(REnd::Error(p.clone())),
            Ev::Complete => self.finish(REnd::Complete),
          }
        } else {
          self.live[src] = false;
        }
      }
      Comb::TakeUntil => match (src, ev) {
        (1, Ev::Next(_)) => self.finish(REnd::Complete),
        (1, _) => self.live[1] = false,
        (_, Ev::Next(x)) => self.out.push(x.clone()),
        (_, Ev::Error(p)) => self.finish(REnd::Error(p.clone())),
        (_, Ev::Complete) => self.finish(REnd::Complete),
      },
      Comb::SkipUntil => match (src, ev) {
        (1, Ev::Next(_)) => {
          self.gate = true;
          self.live[1] = false;
        }
        (1, _) => self.live[1] = false,
        (_, Ev::Next(x)) => {
          if self.gate {
            self.out.push(x.clone())
          }
        }
        (_, Ev::Error(p)) => self.finish(REnd::Error(p.clone())),
        (_, Ev::Complete) => self.finish(REnd::Complete),
      },
      Comb::Sample => match (src, ev) {
        (1, Ev::Next(_)) => {
          if let Some(x) = self.latest[0].take() {
            self.out.push(x);
          }
        }
        (1, _) => self.live[1] = false,
        (_, Ev::Next(x)) => self.latest[0] = Some(x.clone()),
        (_, Ev::Error(p)) => self.finish(REnd::Error(p.clone())),
        (_, Ev::Complete) => self.finish(REnd::Complete),
      },
      Comb::SequenceEqual => match ev {
        Ev::Next(x) => {
          self.queues[src].push(x.clone());
          while self.queues.iter().all(|q| q.len() > self.seq_pos) {
            let a = self.queues[0][self.seq_pos].clone();
            let mut same = true;
            for q in self.queues[1..].iter() {
              if !a.sym_eq(&q[self.seq_pos], "ref") {
                same = false;
              }
            }
            self.seq_pos += 1;
            if !same {
              self.out.push(Sym::konst(0));
              self.finish(REnd::Complete);
              return subs;
            }
          }
        }
        Ev::Error(p) => self.finish(REnd::Error(p.clone())),
        Ev::Complete => {
          self.completed[src] = true;
          self.live[src] = false;
          if self.completed.iter().all(|c| *c) {
            let l0 = self.queues[0].len();
            let same_len = self.queues.iter().all(|q| q.len() == l0);
            self.unequal_lengths = !same_len;
            self.out.push(Sym::konst(same_len as i64));
            self.finish(REnd::Complete);
          }
        }
      },
      Comb::FlatMap => {
        if src == 0 {
          match ev {
            Ev::Next(_) => {
              let inner = 1 + self.outer_items % (self.n - 1);
              self.outer_items += 1;
              self.inner_live.push(inner);
              subs.push(inner);
            }
            Ev::Error(p) => self.finish(REnd::Error(p.clone())),
            Ev::Complete => {
              self.outer_done = true;
              self.live[0] = false;
              if self.inner_live.is_empty() {
                self.finish(REnd::Complete);
              }
            }
          }
        } else {
          match ev {
            Ev::Next(x) => {
              // hot inner: one copy per live subscription of it; a cold
              // inner plays once per subscription
              let k = if self.hot[src] { self.inner_live.iter().filter(|i| **i == src).count() } else { 1 };
              for _ in 0..k {
                self.out.push(x.clone());
              }
            }
            Ev::Error(p) => self.finish(REnd::Error(p.clone())),
            Ev::Complete => {
              if self.hot[src] {
                self.inner_live.retain(|i| *i != src);
              } else if let Some(ix) = self.inner_live.iter().position(|i| *i == src) {
                self.inner_live.remove(ix);
              }
              self.live[src] = false;
              if self.outer_done && self.inner_live.is_empty() {
                self.finish(REnd::Complete);
              }
            }
          }
        }
      }
      _ => {}
    }
    subs
  }
}

/// timed version of a single-source reference function: the events the
/// operator emits at each step of its input script
fn timed(inst_ref: &(dyn Fn(RStream) -> RStream + Send + Sync), script: &[Ev]) -> (Vec<Ev>, Vec<Vec<Ev>>) {
  let mut prev_items = 0usize;
  let mut prev_done = false;
  let mut out = vec![];
  let mut initial = vec![];
  // j = 0: what the operator emits at subscribe time, before any input
  for j in 0..=script.len() {
    let last = j == script.len();
    let prefix = &script[..j];
    let s = if last { inst_ref(stream_of(prefix)) } else { sym::quiet(|| inst_ref(stream_of(prefix))) };
    let mut evs = vec![];
    if !prev_done {
      for x in s.items.iter().skip(prev_items) {
        evs.push(Ev::Next(x.clone()));
      }
      prev_items = s.items.len();
      match &s.end {
        REnd::Complete => {
          evs.push(Ev::Complete);
          prev_done = true;
        }
        REnd::Error(p) => {
          evs.push(Ev::Error(p.clone()));
          prev_done = true;
        }
        REnd::Silent => {}
      }
    }
    if j == 0 {
      initial = evs;
    } else {
      out.push(evs);
    }
  }
  (initial, out)
}

impl Harness for C03 {
  fn name(&self) -> String {
    format!(
      "C03/{}{}/{}/{}/{}/L{}",
      self.comb.name(),
      if self.mode == 1 { "~dyn" } else { "" },
      self.n_src,
      self.pre.map(|o| o.name()).unwrap_or("-"),
      self.post.map(|o| o.name()).unwrap_or("-"),
      self.max_len
    )
  }

  fn run(&self) -> Verdict {
    let n = self.n_src;
    let clock = Arc::new(Mutex::new(0usize));
    let scripts: Vec<Vec<Ev>> = if self.mode == 1 {
      (0..n)
        .map(|k| {
          let len = sym::choose(&format!("s{}.len", k), if k == 0 { 4 } else { 2 });
          let mut v: Vec<Ev> = (0..len).map(|i| Ev::Next(Sym::var(&format!("s{}.x{}", k, i), (k * 10 + i) as i64))).collect();
          if sym::choose(&format!("s{}.end", k), 2) == 0 {
            v.push(Ev::Complete);
          }
          v
        })
        .collect()
    } else {
      (0..n).map(|k| sym_script(&format!("s{}", k), self.max_len, true)).collect()
    };
    let is_hot: Vec<bool> =
      (0..n).map(|k| if self.mode == 1 { true } else { sym::choose(&format!("s{}.hot", k), 2) == 0 }).collect();
    let hots: Vec<Hot> = (0..n).map(|_| Hot::new(clock.clone())).collect();
    let counters: Vec<Arc<Mutex<usize>>> = (0..n).map(|_| Arc::new(Mutex::new(0))).collect();
    let cold_at: Arc<Mutex<Vec<(usize, usize)>>> = Arc::new(Mutex::new(vec![]));
    let mut srcs: Vec<Obs> = vec![];
    for k in 0..n {
      if is_hot[k] {
        srcs.push(hots[k].observable());
      } else {
        // record when the cold source is subscribed (late-subscription check)
        let inner = cold(scripts[k].clone(), Some(counters[k].clone()));
        let at = cold_at.clone();
        let clk = clock.clone();
        srcs.push(observables::defer(move || {
          at.lock().unwrap().push((k, *clk.lock().unwrap()));
          inner.clone()
        }));
      }
    }
    // optional single-source operator on source 0 / after the combinator
    let pre = self.pre.map(|p| instantiate(p, "pre"));
    let post = self.post.map(|p| instantiate(p, "post"));
    if let Some(p) = &pre {
      srcs[0] = (p.real)(srcs[0].clone());
    }
    let mut extra = Extra { keep: vec![], connect: None };
    let mut obs = topo::build_comb(self.comb, &srcs, "t", &mut extra);
    if let Some(p) = &post {
      obs = (p.real)(obs);
    }
    let mut label = String::new();
    if let Some(p) = &pre {
      label.push_str(&format!("{}>", p.label));
    }
    label.push_str(&format!("{}({})", self.comb.name(), n));
    if let Some(p) = &post {
      label.push_str(&format!(">{}", p.label));
    }

    // ---- reference, fed with the same global order
    let mut r = RefComb::new(self.comb, n);
    r.hot = is_hot.clone();
    // what source 0 looks like after the pre operator: per input step
    let timed0: Option<(Vec<Ev>, Vec<Vec<Ev>>)> = pre.as_ref().map(|p| timed(&*p.refr, &scripts[0]));
    let initial0: Vec<Ev> = timed0.as_ref().map(|t| t.0.clone()).unwrap_or_default();
    let feed = |r: &mut RefComb, src: usize, step: usize, scripts: &Vec<Vec<Ev>>, pending: &mut Vec<usize>| {
      let evs: Vec<Ev> = if src == 0 {
        match &timed0 {
          Some(t) => t.1[step].clone(),
          None => vec![scripts[0][step].clone()],
        }
      } else {
        vec![scripts[src][step].clone()]
      };
      for e in evs.iter() {
        let subs = r.on_event(src, e);
        pending.extend(subs);
      }
    };
    // subscription of a source in the reference: cold sources play at once
    fn ref_subscribe(
      r: &mut RefComb,
      k: usize,
      now: usize,
      is_hot: &Vec<bool>,
      scripts: &Vec<Vec<Ev>>,
      initial0: &Vec<Ev>,
      feed: &dyn Fn(&mut RefComb, usize, usize, &Vec<Vec<Ev>>, &mut Vec<usize>),
    ) {
      if r.end.is_some() {
        return;
      }
      r.live[k] = true;
      if r.subscribed_at[k].is_none() {
        r.subscribed_at[k] = Some(now);
      }
      if k == 0 {
        // what the operator below source 0 emits at subscribe time
        for e in initial0.iter() {
          let subs = r.on_event(0, e);
          for p in subs {
            ref_subscribe(r, p, now, is_hot, scripts, initial0, feed);
          }
        }
      }
      if !is_hot[k] {
        for step in 0..scripts[k].len() {
          let mut pending = vec![];
          feed(r, k, step, scripts, &mut pending);
          for p in pending {
            ref_subscribe(r, p, now, is_hot, scripts, initial0, feed);
          }
        }
        r.live[k] = false;
      }
    }

    // ---- run the real thing
    let rec = Recorder::new();
    let sub = rec.subscribe(&obs);
    for k in r.initial() {
      ref_subscribe(&mut r, k, 0, &is_hot, &scripts, &initial0, &feed);
    }
    // arrival order of the hot sources' events
    let mut pos = vec![0usize; n];
    let mut order_desc = vec![];
    let mut step_no = 0;
    loop {
      let ready: Vec<usize> = (0..n).filter(|k| is_hot[*k] && pos[*k] < scripts[*k].len()).collect();
      if ready.is_empty() {
        break;
      }
      let pick = ready[sym::choose(&format!("ord{}", step_no), ready.len())];
      step_no += 1;
      let now = tick(&clock);
      let e = scripts[pick][pos[pick]].clone();
      order_desc.push(format!("s{}:{}", pick, e.short()));
      hots[pick].emit(&e);
      let mut pending = vec![];
      feed(&mut r, pick, pos[pick], &scripts, &mut pending);
      for p in pending {
        ref_subscribe(&mut r, p, now, &is_hot, &scripts, &initial0, &feed);
      }
      pos[pick] += 1;
    }
    let out = rec.take();
    let mut exp = RStream { items: r.out.clone(), end: r.end.clone().unwrap_or(REnd::Silent) };
    if let Some(p) = &post {
      exp = (p.refr)(exp);
    }
    let input = format!(
      "{} order=[{}]",
      (0..n)
        .map(|k| format!("s{}{}[{}]", k, if is_hot[k] { "hot" } else { "cold" }, script_short(&scripts[k])))
        .collect::<Vec<_>>()
        .join(" "),
      order_desc.join(" ")
    );
    let mut sig = format!("topo={}", label);
    if r.unequal_lengths {
      sig.push_str(";case=completed-with-unequal-lengths");
    }
    // zip: the statement fixes the tuples, not when it completes
    let mut v = if self.comb == Comb::Zip && self.post.is_none() {
      let items_only: Vec<Rec> = out.iter().filter(|r| matches!(r, Rec::Next(_))).cloned().collect();
      let mut e2 = exp.clone();
      e2.end = REnd::Silent;
      let mut v = verdict_from(&items_only, &e2, &sig, &input);
      if let (REnd::Error(_), false) = (&exp.end, out.iter().any(|r| matches!(r, Rec::Error(_)))) {
        v.structural = Some(format!("zip lost an error [{}] in={} got=[{}]", sig, input, short_log(&out)));
      }
      v
    } else {
      verdict_from(&out, &exp, &sig, &input)
    };
    // late subscription (concat / flat_map): a source must not be subscribed
    // before the reference says so
    if v.structural.is_none() && self.post.is_none() && matches!(self.comb, Comb::Concat | Comb::FlatMap) {
      for k in 0..n {
        if k == 0 && self.pre.is_some() {
          continue; // the operator below decides when (and whether) source 0 is subscribed
        }
        let real_at: Option<usize> = if is_hot[k] {
          hots[k].subscribed_at.lock().unwrap().first().copied()
        } else {
          cold_at.lock().unwrap().iter().find(|x| x.0 == k).map(|x| x.1)
        };
        if real_at != r.subscribed_at[k] {
          v.structural = Some(format!(
            "source {} subscribed at step {:?}, definition says {:?} [{}] in={}",
            k, real_at, r.subscribed_at[k], sig, input
          ));
          v.signature = format!("{};role=subscription-time", sig);
        }
      }
    }
    drop(sub);
    v
  }
}

pub struct ReadySetGo;

impl Harness for ReadySetGo {
  fn name(&self) -> String {
    "C03/ready_set_go".into()
  }
  fn run(&self) -> Verdict {
    // the action emits into the subject the observable is built on
    let n = sym::choose("n", 4);
    let items: Vec<Sym> = (0..n).map(|i| Sym::var(&format!("x{}", i), i as i64)).collect();
    let end = sym::choose("end", 3);
    let sbj = subjects::Subject::<Sym>::new();
    let s2 = sbj.clone();
    let it = items.clone();
    let p = Sym::var("p", 9);
    let p2 = p.clone();
    let o = utils::ready_set_go(
      move || {
        for x in it.iter() {
          s2.next(x.clone());
        }
        match end {
          0 => s2.complete(),
          1 => s2.error(rx_err(&p2)),
          _ => {}
        }
      },
      sbj.observable(),
    );
    let rec = Recorder::new();
    let _sub = rec.subscribe(&o);
    let exp = RStream {
      items,
      end: match end {
        0 => REnd::Complete,
        1 => REnd::Error(p),
        _ => REnd::Silent,
      },
    };
    verdict_from(&rec.take(), &exp, "topo=ready_set_go(subject)", "action emits into the subject")
  }
}

pub fn plan(tier: Tier, seed: u64) -> Plan {
  let mut h: Vec<Arc<dyn Harness>> = vec![Arc::new(ReadySetGo)];
  let combs = [
    Comb::Merge,
    Comb::Concat,
    Comb::Zip,
    Comb::CombineLatest,
    Comb::Amb,
    Comb::TakeUntil,
    Comb::SkipUntil,
    Comb::Sample,
    Comb::SequenceEqual,
    Comb::FlatMap,
  ];
  let l = if tier == Tier::Quick { 2 } else { 3 };
  for c in combs {
    let ns: Vec<usize> = match c {
      Comb::Merge | Comb::Concat => {
        if tier == Tier::Quick {
          vec![2, 3]
        } else {
          vec![2, 3, 4]
        }
      }
      Comb::Zip | Comb::CombineLatest | Comb::Amb => vec![2, 3],
      Comb::FlatMap => vec![3],
      _ => vec![2],
    };
    for n in ns {
      let len = if n >= 3 { l.min(2) } else { l };
      h.push(Arc::new(C03 { comb: c, n_src: n, max_len: len, pre: None, post: None, mode: 0 }));
    }
    // nesting with one C02 operator below (on source 0) or above
    let nest = [OpKind::Map, OpKind::Filter, OpKind::Take, OpKind::Skip, OpKind::TakeWhile, OpKind::Scan, OpKind::Reduce, OpKind::DistinctUntilChanged];
    for (i, o) in nest.iter().enumerate() {
      if tier == Tier::Quick && (i as u64 + seed) % 2 != 0 {
        continue;
      }
      let n = if c == Comb::FlatMap { 3 } else { 2 };
      h.push(Arc::new(C03 { comb: c, n_src: n, max_len: 2, pre: Some(*o), post: None, mode: 0 }));
      if c != Comb::Zip {
        h.push(Arc::new(C03 { comb: c, n_src: n, max_len: 2, pre: None, post: Some(*o), mode: 0 }));
      }
    }
  }
  // deep flat_map histories (observers registered dynamically): outer + 3 hot inners,
  // exploration sliced over the first arrival-order decisions
  for a in 0..4i64 {
    for b in 0..4i64 {
      let inner: Arc<dyn Harness> = Arc::new(C03 { comb: Comb::FlatMap, n_src: 4, max_len: 3, pre: None, post: None, mode: 1 });
      h.push(Arc::new(crate::explore::Pinned { inner, pins: vec![("ord0".to_string(), a), ("ord1".to_string(), b)] }));
    }
  }
  Plan {
    harnesses: h,
    max_paths: if tier == Tier::Quick { 1500 } else { 40000 },
    max_pc: 96,
    bounds: format!(
      "1..{} sources, scripts of <= {} items + complete/error/silence, each source hot or cold, every arrival order of the hot sources; nesting with one of 8 C02 operators below or above ({})",
      if tier == Tier::Quick { 3 } else { 4 },
      l,
      if tier == Tier::Quick { "seed-selected half" } else { "all" }
    ),
  }
}

pub fn by_name(name: &str) -> Option<Arc<dyn Harness>> {
  if name == "C03/ready_set_go" {
    return Some(Arc::new(ReadySetGo));
  }
  let p: Vec<&str> = name.split('/').collect();
  if p.len() != 6 {
    return None;
  }
  let f = |x: &str| if x == "-" { Some(None) } else { OpKind::from_name(x).map(Some) };
  let (cname, mode) = match p[1].strip_suffix("~dyn") {
    Some(c) => (c, 1u8),
    None => (p[1], 0u8),
  };
  Some(Arc::new(C03 {
    mode,
    comb: Comb::from_name(cname)?,
    n_src: p[2].parse().ok()?,
    pre: f(p[3])?,
    post: f(p[4])?,
    max_len: p[5].trim_start_matches('L').parse().ok()?,
  }))
}
