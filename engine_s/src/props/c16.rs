//! C16 - time-based sources and operators follow the clock (mode T: engine S
//! with a symbolic virtual clock).  Durations and gaps are solver variables;
//! the runtime's virtual clock is mirrored by terms: every `sleep(d)` adds the
//! duration's term to the sleeper's wake-up term, every advance of the clock
//! records the comparison between the winner's wake-up term and every other
//! sleeper's (so each order of timer events is a solver-decided class, and
//! the generational search reaches the other orders).  Simultaneous events
//! are outside the claim (such paths are discarded).

use super::{Plan, Tier};
use crate::explore::{Harness, Verdict};
use crate::rtx::Outcome;
use crate::sym::{self, burn, Sym};
use another_rxrust::prelude::*;
use another_rxrust::vf;
use another_rxrust::vf::rt;
use std::collections::HashMap;
use std::sync::{Arc, Mutex};
use std::time::Duration;

struct TClock {
  now: Sym,
  until: HashMap<usize, Sym>,
  durs: Vec<Sym>,
  tie: bool,
}

static TCLK: Mutex<Option<TClock>> = Mutex::new(None);

fn with_clk<R>(f: impl FnOnce(&mut TClock) -> R) -> R {
  let mut g = TCLK.lock().unwrap_or_else(|p| p.into_inner());
  f(g.as_mut().expect("clock"))
}

/// register a symbolic duration; the returned `Duration` encodes which one it is
fn dur(d: &Sym) -> Duration {
  let idx = with_clk(|c| {
    c.durs.push(d.clone());
    c.durs.len() - 1
  });
  assert!(idx < 16);
  Duration::from_nanos(d.v as u64 * 16 + idx as u64)
}

fn now() -> Sym {
  with_clk(|c| c.now.clone())
}

fn install_clock() {
  *TCLK.lock().unwrap_or_else(|p| p.into_inner()) =
    Some(TClock { now: Sym::konst(0), until: HashMap::new(), durs: vec![], tie: false });
  rt::set_time_hooks(Some(rt::TimeHooks {
    on_sleep: Box::new(|task, nanos| {
      with_clk(|c| {
        let idx = (nanos % 16) as usize;
        let d = if idx < c.durs.len() && c.durs[idx].v as u64 == nanos / 16 { c.durs[idx].clone() } else { Sym::konst((nanos / 16) as i64) };
        let u = c.now.add(&d);
        c.until.insert(task, u);
      })
    }),
    on_wake: Box::new(|winner, others| {
      with_clk(|c| {
        let w = match c.until.get(&winner) {
          Some(w) => w.clone(),
          None => return,
        };
        for o in others {
          if let Some(u) = c.until.get(o) {
            // simultaneous events are outside the claim: split them off first; then record which of
            // the two wakes first, canonically ordered by task id so that the negated branch is the
            // same condition with the other outcome
            let (a, b) = if winner < *o { (&w, u) } else { (u, &w) };
            if a.sym_eq(b, "clock-tie") {
              c.tie = true;
            } else {
              let a_first = a.sym_lt(b, "clock");
              if a_first != (winner < *o) {
                c.tie = true; // the shadows disagree with the scheduler (sub-unit perturbation): not judged
              }
            }
          }
        }
        c.now = w;
        c.until.remove(&winner);
      })
    }),
  }));
}

fn uninstall_clock() -> bool {
  rt::set_time_hooks(None);
  let t = with_clk(|c| c.tie);
  *TCLK.lock().unwrap_or_else(|p| p.into_inner()) = None;
  t
}

#[derive(Clone, Debug)]
enum TRec {
  Next(i64, Sym),
  Error(bool, Sym),
  Complete(Sym),
}

fn trec_short(l: &[TRec]) -> String {
  l.iter()
    .map(|r| match r {
      TRec::Next(v, t) => format!("n{}@{}", v, t.v),
      TRec::Error(to, t) => format!("E{}@{}", if *to { "timeout" } else { "" }, t.v),
      TRec::Complete(t) => format!("C@{}", t.v),
    })
    .collect::<Vec<_>>()
    .join(",")
}

fn subscribe_timed<T: Clone + Send + Sync + 'static>(o: &Observable<'static, T>, conv: fn(T) -> i64) -> (Arc<Mutex<Vec<TRec>>>, Subscription<'static>) {
  let log = Arc::new(Mutex::new(vec![]));
  let (a, b, c) = (log.clone(), log.clone(), log.clone());
  let sub = o.subscribe(
    move |x: T| {
      burn();
      a.lock().unwrap().push(TRec::Next(conv(x), now()));
    },
    move |e: RxError| {
      burn();
      let to = e.downcast_ref::<std::io::Error>().map(|e| e.kind() == std::io::ErrorKind::TimedOut).unwrap_or(false);
      b.lock().unwrap().push(TRec::Error(to, now()));
    },
    move || {
      burn();
      c.lock().unwrap().push(TRec::Complete(now()));
    },
  );
  (log, sub)
}

fn sum_of(parts: &[Sym]) -> Sym {
  let mut acc = Sym::konst(0);
  for p in parts {
    acc = acc.add(p);
  }
  acc
}

pub struct C16 {
  pub scen: &'static str,
}

const BIG: u64 = 16 * 1_000_000;

impl Harness for C16 {
  fn name(&self) -> String {
    format!("C16/{}", self.scen)
  }
  fn fuel(&self) -> i64 {
    3000
  }
  fn judge_abnormal(&self, o: &Outcome, _notes: &[String]) -> Option<(String, String)> {
    match o {
      // workers left waiting on their queue are C15's business
      Outcome::Deadlock(b) if b.iter().all(|x| x.1 == "condvar") => None,
      Outcome::Finished => None,
      Outcome::Deadlock(b) => Some((format!("abnormal:deadlock:{}", b.iter().map(|x| x.3.clone()).collect::<Vec<_>>().join(",")), format!("{:?}", b))),
      Outcome::StepLimit => Some(("abnormal:step-limit".into(), "a timer thread keeps running".into())),
      Outcome::Fuel => Some(("abnormal:fuel".into(), String::new())),
      Outcome::Panic(m) => Some((format!("abnormal:panic:{}", m.lines().next().unwrap_or("")), m.clone())),
      Outcome::Hang => Some(("abnormal:hang".into(), String::new())),
    }
  }
  fn run(&self) -> Verdict {
    install_clock();
    let nt = schedulers::new_thread_scheduler;
    let sig = format!("scen={}", self.scen);
    let mut eqs = vec![];
    let mut structural: Option<String> = None;
    let desc;
    let d = Sym::var_in("d", 1, 60, 7);
    match self.scen {
      "interval" | "timer" | "interval_default" | "timer_default" => {
        let is_timer = self.scen.starts_with("timer");
        let k = if is_timer { 1 } else { 1 + sym::choose("k", 3) };
        // the default scheduler runs the timer loop synchronously inside subscribe
        let (log, _sub) = match self.scen {
          "timer" => subscribe_timed(&observables::timer(dur(&d), nt()), |_| 0),
          "timer_default" => subscribe_timed(&observables::timer(dur(&d), schedulers::default_scheduler()), |_| 0),
          "interval_default" => subscribe_timed(&observables::interval(dur(&d), schedulers::default_scheduler()).take(k), |x: u64| x as i64),
          _ => subscribe_timed(&observables::interval(dur(&d), nt()).take(k), |x: u64| x as i64),
        };
        vf::sleep(Duration::from_nanos(BIG));
        let l = log.lock().unwrap().clone();
        desc = format!("{} d={} k={} got=[{}]", self.scen, d.v, k, trec_short(&l));
        if l.len() != k + 1 {
          structural = Some(format!("expected {} items and complete, got [{}]", k, trec_short(&l)));
        } else {
          for j in 0..k {
            let exp_t = sum_of(&vec![d.clone(); j + 1]);
            match &l[j] {
              TRec::Next(v, t) if *v == j as i64 || is_timer => eqs.push(sym::t_eq(t.t, exp_t.t)),
              _ => structural = Some(format!("item {} wrong: [{}]", j, trec_short(&l))),
            }
          }
          if !matches!(l[k], TRec::Complete(_)) {
            structural = Some(format!("no completion: [{}]", trec_short(&l)));
          }
        }
      }
      "delay" | "timeout" | "sample" | "debounce" => {
        let n = 1 + sym::choose("n", 3);
        let gaps: Vec<Sym> = (0..n).map(|i| Sym::var_in(&format!("g{}", i), 1, 60, 3 + i as i64)).collect();
        let gc = Sym::var_in("gc", 1, 60, 2);
        let sbj = subjects::Subject::<i64>::new();
        let emitted: Arc<Mutex<Vec<(i64, Sym)>>> = Arc::new(Mutex::new(vec![]));
        let completed_at: Arc<Mutex<Option<Sym>>> = Arc::new(Mutex::new(None));
        let o: Observable<'static, i64> = match self.scen {
          "delay" => sbj.observable().delay(dur(&d)),
          "timeout" => sbj.observable().timeout(dur(&d), nt()),
          "sample" => sbj.observable().sample(observables::interval(dur(&d), nt())),
          _ => sbj.observable().debounce(dur(&d), nt()),
        };
        let (log, sub) = subscribe_timed(&o, |x| x);
        let gd: Vec<Duration> = gaps.iter().map(dur).collect();
        let gcd = dur(&gc);
        let (s2, e2, c2) = (sbj.clone(), emitted.clone(), completed_at.clone());
        vf::spawn(move || {
          for (i, g) in gd.iter().enumerate() {
            vf::sleep(*g);
            e2.lock().unwrap().push((i as i64, now()));
            s2.next(i as i64);
          }
          vf::sleep(gcd);
          *c2.lock().unwrap() = Some(now());
          s2.complete();
        });
        vf::sleep(Duration::from_nanos(BIG));
        sub.unsubscribe();
        let l = log.lock().unwrap().clone();
        let em = emitted.lock().unwrap().clone();
        desc = format!(
          "{} d={} gaps={:?} gc={} emitted=[{}] got=[{}]",
          self.scen,
          d.v,
          gaps.iter().map(|g| g.v).collect::<Vec<_>>(),
          gc.v,
          em.iter().map(|(v, t)| format!("{}@{}", v, t.v)).collect::<Vec<_>>().join(","),
          trec_short(&l)
        );
        match self.scen {
          "delay" => {
            // each item d after the source handed it over, order preserved, then the completion
            if l.len() != n + 1 {
              structural = Some(format!("expected {} items and complete: [{}]", n, trec_short(&l)));
            } else {
              for i in 0..n {
                match &l[i] {
                  TRec::Next(v, t) if *v == i as i64 => eqs.push(sym::t_eq(t.t, em[i].1.add(&d).t)),
                  _ => structural = Some(format!("item {} wrong: [{}]", i, trec_short(&l))),
                }
              }
            }
          }
          "timeout" => {
            // fails exactly when more than d elapses after an item with no successor and no completion
            let mut exp: Vec<(&str, i64, Sym)> = vec![];
            let mut failed = false;
            for i in 0..n {
              if i > 0 && d.sym_lt(&gaps[i], "ref") {
                exp.push(("E", 0, em[i - 1].1.add(&d)));
                failed = true;
                break;
              }
              exp.push(("n", i as i64, em[i].1.clone()));
            }
            if !failed {
              if d.sym_lt(&gc, "ref") {
                exp.push(("E", 0, em[n - 1].1.add(&d)));
              } else {
                exp.push(("C", 0, completed_at.lock().unwrap().clone().unwrap_or_else(|| Sym::konst(-1))));
              }
            }
            if l.len() != exp.len() {
              structural = Some(format!("expected {} events: [{}]", exp.len(), trec_short(&l)));
            } else {
              for (r, (k, v, t)) in l.iter().zip(exp.iter()) {
                match (r, *k) {
                  (TRec::Next(x, rt_), "n") if x == v => eqs.push(sym::t_eq(rt_.t, t.t)),
                  (TRec::Error(true, rt_), "E") => eqs.push(sym::t_eq(rt_.t, t.t)),
                  (TRec::Complete(rt_), "C") => eqs.push(sym::t_eq(rt_.t, t.t)),
                  _ => structural = Some(format!("event mismatch, expected {} : [{}]", k, trec_short(&l))),
                }
              }
            }
          }
          _ => {
            // sample / debounce: only items the source emitted, in source order, none twice
            let vals: Vec<i64> = l.iter().filter_map(|r| if let TRec::Next(v, _) = r { Some(*v) } else { None }).collect();
            let mut last = -1;
            for v in vals.iter() {
              if *v <= last || !em.iter().any(|(x, _)| x == v) {
                structural = Some(format!("not a duplicate-free subsequence of the source: [{}]", trec_short(&l)));
              }
              last = *v;
            }
          }
        }
      }
      _ => panic!("scenario"),
    }
    let tie = uninstall_clock();
    if tie {
      // simultaneous timer events: outside the claim
      return Verdict { prop: None, structural: None, sample: format!("{} (simultaneous events: not judged)", desc), signature: sig, nontrivial: false, detail: vec![] };
    }
    Verdict {
      prop: if structural.is_none() { Some(sym::t_and(eqs)) } else { None },
      structural: structural.map(|m| format!("{} [{}] {}", m, sig, desc)),
      sample: desc,
      signature: sig,
      nontrivial: true,
      detail: vec![],
    }
  }
}

const SCENS: [&str; 8] = ["interval", "timer", "interval_default", "timer_default", "delay", "timeout", "sample", "debounce"];

pub fn plan(tier: Tier, _seed: u64) -> Plan {
  let h: Vec<Arc<dyn Harness>> = SCENS.iter().map(|s| Arc::new(C16 { scen: s }) as Arc<dyn Harness>).collect();
  Plan {
    harnesses: h,
    max_paths: if tier == Tier::Quick { 400 } else { 20000 },
    max_pc: 200,
    bounds: "periods and gaps are solver variables in 1..60 time units (symbolic virtual clock); interval: 1..3 items; sources of 1..3 items with symbolic gaps then completion; every order of timer events decided by z3, simultaneous events excluded; one default interleaving per time order".into(),
  }
}

pub fn by_name(name: &str) -> Option<Arc<dyn Harness>> {
  let s = name.strip_prefix("C16/")?;
  let scen = SCENS.iter().find(|x| **x == s)?;
  Some(Arc::new(C16 { scen }))
}
