//! C14 - every subscribe() runs an independent pipeline.
//! Cold mode: one Observable value over deterministic cold sources is
//! subscribed 2..3 times one after another; every later subscriber must
//! record exactly what the first (sole) one recorded, term by term.
//! Hot mode: the second subscription starts while the first is mid-stream on
//! hot sources; it must record what the sole subscriber of a *fresh, equal*
//! Observable value subscribed at the same moment records.

use super::{Plan, Tier};
use crate::explore::{Harness, Verdict};
use crate::hlib::*;
use crate::sym::{self, Sym};
use crate::topo::{self, Topo};
use std::sync::{Arc, Mutex};

pub struct C14 {
  pub topo: Topo,
  pub hot: bool,
  pub max_len: usize,
}

fn cmp_logs(a: &[Rec], b: &[Rec]) -> (Option<crate::sym::TermId>, Option<String>) {
  if a.len() != b.len() {
    return (None, Some("different number of events".into()));
  }
  let mut eqs = vec![];
  for (x, y) in a.iter().zip(b.iter()) {
    match (x, y) {
      (Rec::Next(p), Rec::Next(q)) => {
        if p.tag != q.tag {
          return (None, Some("structural label differs".into()));
        }
        eqs.push(sym::t_eq(p.t, q.t));
      }
      (Rec::Complete, Rec::Complete) => {}
      (Rec::Error(Some(p)), Rec::Error(Some(q))) => eqs.push(sym::t_eq(p.t, q.t)),
      (Rec::Error(None), Rec::Error(None)) => {}
      _ => return (None, Some("different kinds of events".into())),
    }
  }
  (Some(sym::t_and(eqs)), None)
}

impl Harness for C14 {
  fn name(&self) -> String {
    format!("C14/{}/{}/L{}", if self.hot { "hot" } else { "cold" }, self.topo.name(), self.max_len)
  }
  fn fuel(&self) -> i64 {
    6000
  }
  fn run(&self) -> Verdict {
    let n = self.topo.n_sources();
    let scripts: Vec<Vec<Ev>> = (0..n).map(|k| sym_script(&format!("s{}", k), self.max_len, true)).collect();
    let input = scripts.iter().map(|s| format!("[{}]", script_short(s))).collect::<Vec<_>>().join(" ");
    if !self.hot {
      let srcs: Vec<Obs> = scripts.iter().map(|s| cold(s.clone(), None)).collect();
      let built = topo::build(&self.topo, &srcs, "t");
      let k = 2 + sym::choose("subs", 2);
      let sig = format!("topo={}", built.label);
      let mut logs = vec![];
      let mut side_logs = vec![];
      for _ in 0..k {
        let rec = Recorder::new();
        let conn_first = built.extra.connect.as_ref().map(|c| c());
        let sub = rec.subscribe(&built.obs);
        drop(conn_first);
        drop(sub);
        logs.push(rec.take());
        // side effects of tap accumulate per subscription
        for i in built.insts.iter() {
          if let Some(s) = &i.side {
            side_logs.push(s.take().len());
          }
        }
      }
      let mut props = vec![];
      for j in 1..k {
        let (p, st) = cmp_logs(&logs[0], &logs[j]);
        if let Some(m) = st {
          return Verdict {
            prop: None,
            structural: Some(format!(
              "{}: subscriber {} got [{}], the first (sole) subscriber got [{}] [{}] in={}",
              m,
              j + 1,
              short_log(&logs[j]),
              short_log(&logs[0]),
              sig,
              input
            )),
            sample: String::new(),
            signature: format!("{};role=later-subscriber", sig),
            nontrivial: true,
            detail: vec![],
          };
        }
        props.push(p.unwrap());
      }
      // tap acts for every subscription: each tap's side log grows by the same amount each time
      let taps = built.insts.iter().filter(|i| i.side.is_some()).count();
      if taps >= 1 {
        for t in 0..taps {
          let mine: Vec<usize> = side_logs.iter().skip(t).step_by(taps).copied().collect();
          let d0 = mine[0];
          for j in 1..mine.len() {
            if mine[j] != d0 * (j + 1) {
              return Verdict {
                prop: None,
                structural: Some(format!("tap #{} side effects per subscription: cumulative {:?} [{}] in={}", t, mine, sig, input)),
                sample: String::new(),
                signature: format!("{};role=tap-side-effects", sig),
                nontrivial: true,
                detail: vec![],
              };
            }
          }
        }
      }
      return Verdict {
        prop: Some(sym::t_and(props)),
        structural: None,
        sample: format!("{} in={} subscribers={} each=[{}]", sig, input, k, short_log(&logs[0])),
        signature: format!("{};role=later-subscriber-values", sig),
        nontrivial: !logs[0].is_empty(),
        detail: vec![],
      };
    }
    // ---- hot mode
    let clock = Arc::new(Mutex::new(0usize));
    let hots: Vec<Hot> = (0..n).map(|_| Hot::new(clock.clone())).collect();
    let srcs: Vec<Obs> = hots.iter().map(|h| h.observable()).collect();
    let shared = topo::build(&self.topo, &srcs, "t");
    let twin1 = topo::build(&self.topo, &srcs, "t");
    let twin2 = topo::build(&self.topo, &srcs, "t");
    let sig = format!("topo={}", shared.label);
    let total: usize = scripts.iter().map(|s| s.len()).sum();
    let join_at = sym::choose("join_at", total + 1);
    let (r1, r2, t1, t2) = (Recorder::new(), Recorder::new(), Recorder::new(), Recorder::new());
    let mut keep = vec![];
    keep.push(r1.subscribe(&shared.obs));
    keep.push(t1.subscribe(&twin1.obs));
    let mut pos = vec![0usize; n];
    let mut step = 0;
    let mut order = vec![];
    let mut joined = false;
    loop {
      if step == join_at && !joined {
        keep.push(r2.subscribe(&shared.obs));
        keep.push(t2.subscribe(&twin2.obs));
        joined = true;
        order.push("JOIN".to_string());
      }
      let ready: Vec<usize> = (0..n).filter(|k| pos[*k] < scripts[*k].len()).collect();
      if ready.is_empty() {
        break;
      }
      let pick = ready[sym::choose(&format!("ord{}", step), ready.len())];
      let e = scripts[pick][pos[pick]].clone();
      order.push(format!("s{}:{}", pick, e.short()));
      hots[pick].emit(&e);
      pos[pick] += 1;
      step += 1;
    }
    if !joined {
      keep.push(r2.subscribe(&shared.obs));
      keep.push(t2.subscribe(&twin2.obs));
    }
    let (l1, l2, m1, m2) = (r1.take(), r2.take(), t1.take(), t2.take());
    let mut props = vec![];
    for (who, a, b) in [("first", &l1, &m1), ("second", &l2, &m2)] {
      let (p, st) = cmp_logs(b, a);
      if let Some(m) = st {
        return Verdict {
          prop: None,
          structural: Some(format!(
            "{}: {} subscriber of the shared Observable got [{}], the sole subscriber of an equal fresh Observable got [{}] [{}] order=[{}]",
            m,
            who,
            short_log(a),
            short_log(b),
            sig,
            order.join(" ")
          )),
          sample: String::new(),
          signature: format!("{};role={}-subscriber-interleaved", sig, who),
          nontrivial: true,
          detail: vec![],
        };
      }
      props.push(p.unwrap());
    }
    drop(keep);
    Verdict {
      prop: Some(sym::t_and(props)),
      structural: None,
      sample: format!("{} order=[{}] first=[{}] second=[{}]", sig, order.join(" "), short_log(&l1), short_log(&l2)),
      signature: format!("{};role=interleaved-values", sig),
      nontrivial: !l1.is_empty() || !l2.is_empty(),
      detail: vec![],
    }
  }
}

fn excluded(t: &Topo) -> bool {
  // subjects and connectables are *meant* to share state between subscribers (C10/C13)
  use crate::topo::Comb::*;
  match t {
    Topo::Comb { comb, .. } => matches!(comb, ViaSubject | ViaBehavior | ViaReplay | ViaAsync | PublishConnect | RefCount | Replay),
    _ => false,
  }
}

pub fn plan(tier: Tier, seed: u64) -> Plan {
  let mut h: Vec<Arc<dyn Harness>> = vec![];
  let cat = topo::catalogue(true, true);
  let mut idx = 0u64;
  for t in cat {
    if excluded(&t) || t == Topo::Direct {
      continue;
    }
    let depth2 = match &t {
      Topo::Chain(v) => v.len() > 1,
      Topo::Comb { pre, post, .. } => pre.is_some() || post.is_some(),
      _ => false,
    };
    if depth2 {
      idx += 1;
      if tier == Tier::Quick && (idx + seed) % 4 != 0 {
        continue;
      }
    }
    let n = t.n_sources();
    let l = if n == 1 { 3 } else { 2 };
    // an unbounded retry over a cold source that always fails loops by definition (covered by C04 with attempt-dependent sources)
    let retrying = matches!(&t, Topo::Comb { comb: crate::topo::Comb::Retry | crate::topo::Comb::RetryWhen, .. });
    if !retrying {
      h.push(Arc::new(C14 { topo: t.clone(), hot: false, max_len: l }));
    }
    if !depth2 || tier == Tier::Thorough {
      h.push(Arc::new(C14 { topo: t, hot: true, max_len: if n == 1 { 3 } else { 1 } }));
    }
  }
  Plan {
    harnesses: h,
    max_paths: if tier == Tier::Quick { 500 } else { 20000 },
    max_pc: 96,
    bounds: format!(
      "every topology of depth 1 and {} of depth 2 (subjects/connectables excluded: they share by design); cold: scripts <= 3 items (1 source) / 2 (several), 2..3 sequential subscriptions; hot: second subscription at every position of every arrival order",
      if tier == Tier::Quick { "a seed-selected quarter" } else { "all stateful pairs" }
    ),
  }
}

pub fn by_name(name: &str) -> Option<Arc<dyn Harness>> {
  let p: Vec<&str> = name.split('/').collect();
  if p.len() != 4 {
    return None;
  }
  Some(Arc::new(C14 { hot: p[1] == "hot", topo: Topo::from_name(p[2])?, max_len: p[3].trim_start_matches('L').parse().ok()? }))
}
