//! C13 - connectable observables share one source subscription.
//! Symbolic histories over {subscribe_i, unsubscribe_i, connect, disconnect,
//! source emits v, source completes/errors} for publish / ref_count / replay,
//! with a hot (driven) source or a cold source that emits synchronously
//! inside connect / first subscribe.

use super::{Plan, Tier};
use crate::explore::{Harness, Verdict};
use crate::hlib::*;
use crate::sym::{self, Sym};
use another_rxrust::prelude::*;
use std::sync::{Arc, Mutex};

#[derive(Clone, Copy, Debug, PartialEq)]
pub enum Ck {
  Publish,
  RefCount,
  Replay,
}

pub struct C13 {
  pub kind: Ck,
  pub cold: bool,
  /// hot source that also emits one item synchronously inside every subscribe call (and stays subscribed)
  pub greet: bool,
  pub take1: bool,
  pub max_steps: usize,
  pub observers: usize,
  /// true: only subscribe / unsubscribe / connect / source emits (deep membership histories, 3 subscribers)
  pub membership_only: bool,
}

#[derive(Clone)]
struct RObs {
  live: bool,
  free: bool,
  items: Vec<Sym>,
  end: REnd,
}

enum Conn {
  P(operators::Publish<'static, Sym>),
  R(operators::RefCount<'static, Sym>),
  Y(operators::Replay<'static, Sym>),
}

impl Harness for C13 {
  fn name(&self) -> String {
    format!(
      "C13/{:?}/{}/{}/O{}{}/L{}",
      self.kind,
      if self.cold { "cold" } else if self.greet { "hotsync" } else { "hot" },
      if self.take1 { "take1" } else { "direct" },
      self.observers,
      if self.membership_only { "m" } else { "" },
      self.max_steps
    )
  }
  fn run(&self) -> Verdict {
    let clock = Arc::new(Mutex::new(0usize));
    let hot = Hot::new(clock.clone());
    let cold_script = if self.cold {
      sym_script("cs", 2, true)
    } else if self.greet {
      vec![Ev::Next(Sym::var("g.x", 9))]
    } else {
      vec![]
    };
    if self.greet {
      *hot.greeting.lock().unwrap() = cold_script.clone();
    }
    // the events every subscription of the source delivers synchronously
    let sync = self.cold || self.greet;
    let counter = Arc::new(Mutex::new(0usize));
    let src: Obs = if self.cold { cold(cold_script.clone(), Some(counter.clone())) } else { hot.observable() };
    let conn = match self.kind {
      Ck::Publish => Conn::P(src.publish()),
      Ck::RefCount => Conn::R(src.ref_count()),
      Ck::Replay => Conn::Y(src.replay()),
    };
    let observable = |c: &Conn| -> Obs {
      match c {
        Conn::P(p) => p.observable(),
        Conn::R(p) => p.observable(),
        Conn::Y(p) => p.observable(),
      }
    };
    // subscribers come through one shared `.observable()` handle or through a fresh one each
    let shared_handle = sym::choose("shared_handle", 2) == 1;
    let the_handle = observable(&conn);
    let no = self.observers;
    let mut recs: Vec<Option<Recorder>> = (0..no).map(|_| None).collect();
    let mut subs: Vec<Option<Subscription<'static>>> = (0..no).map(|_| None).collect();
    let mut robs: Vec<Option<RObs>> = (0..no).map(|_| None).collect();
    let mut connection: Option<Subscription<'static>> = None;
    // reference state
    let mut src_live = false; // the source is currently subscribed
    let mut src_subs = 0usize; // how often the source was subscribed
    let mut history: Vec<Sym> = vec![];
    let mut terminal: Option<REnd> = None; // of the shared subject
    let mut trace: Vec<String> = vec![];
    let take1 = self.take1;
    let sig = format!("connectable={:?};source={};via={}", self.kind, if self.cold { "cold" } else if self.greet { "hotsync" } else { "hot" }, if take1 { "take(1)" } else { "direct" });

    macro_rules! fail {
      ($role:expr, $msg:expr) => {
        return Verdict {
          prop: None,
          structural: Some(format!("{} [{}] history=[{}]", $msg, sig, trace.join(" "))),
          sample: String::new(),
          signature: format!("{};role={}", sig, $role),
          nontrivial: true,
          detail: vec![],
        }
      };
    }

    // deliver one source event to the reference observers
    fn feed(robs: &mut Vec<Option<RObs>>, history: &mut Vec<Sym>, terminal: &mut Option<REnd>, e: &Ev, take1: bool) {
      match e {
        Ev::Next(x) => {
          history.push(x.clone());
          for r in robs.iter_mut().flatten() {
            if r.live {
              r.items.push(x.clone());
              if take1 {
                r.live = false;
                r.end = REnd::Complete;
              }
            }
          }
        }
        Ev::Complete | Ev::Error(_) => {
          let end = match e {
            Ev::Error(p) => REnd::Error(p.clone()),
            _ => REnd::Complete,
          };
          for r in robs.iter_mut().flatten() {
            if r.live {
              r.live = false;
              r.end = end.clone();
            }
          }
          *terminal = Some(end);
        }
      }
    }
    let live_count = |robs: &Vec<Option<RObs>>| robs.iter().flatten().filter(|r| r.live).count();

    let steps = sym::choose("steps", self.max_steps + 1);
    for i in 0..steps {
      let k = if self.membership_only { [0usize, 1, 2, 4][sym::choose(&format!("h{}.op", i), 4)] } else { sym::choose(&format!("h{}.op", i), 6) };
      match k {
        0 => {
          let j = sym::choose(&format!("h{}.who", i), no);
          if recs[j].is_some() {
            continue;
          }
          trace.push(format!("sub{}", j));
          let rec = Recorder::labelled(&format!("{}", j));
          let o = if shared_handle { the_handle.clone() } else { observable(&conn) };
          let o = if take1 { o.take(1) } else { o };
          let mut r = RObs { live: true, free: false, items: vec![], end: REnd::Silent };
          // reference: what the newcomer gets before going live
          if self.kind == Ck::Replay {
            for x in history.iter() {
              if r.live {
                r.items.push(x.clone());
                if take1 {
                  r.live = false;
                  r.end = REnd::Complete;
                }
              }
            }
            if let (Some(e), true) = (&terminal, r.live) {
              r.live = false;
              r.end = e.clone();
            }
          } else if terminal.is_some() {
            r.free = true; // joining a terminated plain subject: not fixed by the statement
          }
          // a replay subscriber attaches to the shared subject before its history is replayed: it
          // counts as an arrival even if the history alone satisfies it (take(1))
          let was_live = r.live || (self.kind == Ck::Replay && !r.free);
          robs[j] = Some(r);
          // ref_count / replay: the first subscriber connects
          if self.kind != Ck::Publish && was_live && !src_live && terminal.is_none() {
            src_live = true;
            src_subs += 1;
            if sync {
              for e in cold_script.iter() {
                if terminal.is_none() {
                  feed(&mut robs, &mut history, &mut terminal, e, take1);
                }
              }
              if terminal.is_some() {
                src_live = false;
              }
            }
          }
          subs[j] = Some(rec.subscribe(&o));
          recs[j] = Some(rec);
          // a subscriber that left during the synchronous emission may have been the last one
          if self.kind != Ck::Publish && live_count(&robs) == 0 && src_live {
            src_live = false;
          }
        }
        1 => {
          let j = sym::choose(&format!("h{}.who", i), no);
          if let Some(s) = &subs[j] {
            trace.push(format!("unsub{}", j));
            s.unsubscribe();
            if let Some(r) = robs[j].as_mut() {
              r.live = false;
            }
            if self.kind != Ck::Publish && live_count(&robs) == 0 && src_live {
              src_live = false;
            }
          }
        }
        2 => {
          // connect (publish only; once at a time)
          if let (Conn::P(p), true) = (&conn, connection.is_none()) {
            trace.push("connect".into());
            if terminal.is_none() {
              src_live = true;
              src_subs += 1;
              if sync {
                for e in cold_script.iter() {
                  if terminal.is_none() {
                    feed(&mut robs, &mut history, &mut terminal, e, take1);
                  }
                }
                if terminal.is_some() {
                  src_live = false;
                }
              }
            } else {
              // connecting a publish whose subject already terminated: the source is subscribed
              // again, nothing is observable downstream
              src_subs += 1;
              src_live = !self.cold;
            }
            connection = Some(p.connect());
          }
        }
        3 => {
          if let Some(c) = connection.take() {
            trace.push("disconnect".into());
            c.unsubscribe();
            src_live = false;
          }
        }
        _ => {
          // the hot source emits
          if self.cold {
            continue;
          }
          let e = match k {
            4 => Ev::Next(Sym::var(&format!("h{}.x", i), i as i64 + 1)),
            _ => {
              if sym::choose(&format!("h{}.t", i), 2) == 0 {
                Ev::Complete
              } else {
                Ev::Error(Sym::var(&format!("h{}.err", i), 70))
              }
            }
          };
          trace.push(format!("src:{}", e.short()));
          // a well-behaved hot source emits only to subscribed observers
          let obs: Vec<_> = hot.observers.lock().unwrap().clone();
          for o in obs.iter() {
            if o.is_subscribed() {
              emit(o, &e);
            }
          }
          if src_live && terminal.is_none() {
            feed(&mut robs, &mut history, &mut terminal, &e, take1);
            if !matches!(e, Ev::Next(_)) {
              src_live = false;
            }
            if self.kind != Ck::Publish && live_count(&robs) == 0 && src_live {
              src_live = false;
            }
          } else if src_live && !matches!(e, Ev::Next(_)) {
            // a connection made after the shared subject had terminated (publish re-connected): the source's
            // terminal ends that connection too, nothing is observable downstream
            src_live = false;
          }
        }
      }
      // ---- invariants on the source subscription, after every step
      let (real_subs, real_live) = if self.cold {
        (*counter.lock().unwrap(), 0)
      } else {
        (hot.n_subscribed(), hot.probes().iter().filter(|p| **p).count())
      };
      if real_live > 1 {
        fail!("more-than-one-source-subscription", format!("{} live source subscriptions", real_live));
      }
      if real_subs != src_subs {
        if self.kind != Ck::Publish && src_subs >= 2 && real_subs + 1 == src_subs {
          fail!(
            "source-subscription-count;case=no-reconnect-after-last-subscriber-left",
            format!("the source was subscribed {} times, the definition says {}", real_subs, src_subs)
          );
        }
        fail!(
          "source-subscription-count",
          format!("the source was subscribed {} times, the definition says {}", real_subs, src_subs)
        );
      }
      if !self.cold && (real_live == 1) != src_live {
        fail!(
          "source-liveness",
          format!("source subscribed = {}, the definition says {}", real_live == 1, src_live)
        );
      }
    }
    // ---- per subscriber sequences
    let mut props = vec![];
    let mut summary = vec![];
    for j in 0..no {
      if let (Some(rec), Some(r)) = (&recs[j], &robs[j]) {
        let out = rec.take();
        summary.push(format!("o{}=[{}]", j, short_log(&out)));
        if r.free {
          continue;
        }
        let exp = RStream { items: r.items.clone(), end: r.end.clone() };
        let (p, st) = compare(&out, &exp, &sig);
        if let Some(m) = st {
          // what kind of mismatch: items of the expected sequence delivered more than once, or anything else
          let got: Vec<(i64, i64)> = out.iter().filter_map(|r| if let Rec::Next(p) = r { Some((p.t as i64, p.tag as i64)) } else { None }).collect();
          let want: Vec<(i64, i64)> = exp.items.iter().map(|x| (x.t as i64, x.tag as i64)).collect();
          let mut dedup = got.clone();
          dedup.dedup();
          let mut once: Vec<(i64, i64)> = vec![];
          for g in &got {
            if !once.contains(g) {
              once.push(*g);
            }
          }
          let duplicates = got.len() > want.len() && got.iter().all(|g| want.contains(g)) && (once == want || dedup == want);
          if duplicates {
            fail!("subscriber-sequence;case=items-delivered-twice", format!("subscriber {}: {}", j, m));
          }
          fail!("subscriber-sequence", format!("subscriber {}: {}", j, m));
        }
        props.push(p.unwrap());
      }
    }
    drop(connection);
    Verdict {
      prop: Some(sym::t_and(props)),
      structural: None,
      sample: format!("{} history=[{}] {}", sig, trace.join(" "), summary.join(" ")),
      signature: format!("{};role=subscriber-values", sig),
      nontrivial: !summary.is_empty(),
      detail: vec![],
    }
  }
}

pub fn plan(tier: Tier, _seed: u64) -> Plan {
  let mut h: Vec<Arc<dyn Harness>> = vec![];
  let steps = if tier == Tier::Quick { 5 } else { 7 };
  for kind in [Ck::Publish, Ck::RefCount, Ck::Replay] {
    for cold in [false, true] {
      for take1 in [false, true] {
        h.push(Arc::new(C13 { kind, cold, greet: false, take1, max_steps: steps, observers: if tier == Tier::Quick { 2 } else { 3 }, membership_only: false }));
      }
    }
    // a hot source that also emits inside subscribe (publish, ref_count; replay over synchronous
    // sources is saturated by its known findings)
    if kind != Ck::Replay {
      for take1 in [false, true] {
        h.push(Arc::new(C13 { kind, cold: false, greet: true, take1, max_steps: steps.min(5), observers: 2, membership_only: false }));
      }
    }
    // three subscribers joining and leaving in every order over a hot source (sliced);
    // the ReplaySubject side of this is covered by C10's slices
    for who in 0..3i64 {
      if kind == Ck::Replay {
        break;
      }
      for op1 in 0..4i64 {
        let inner: Arc<dyn Harness> = Arc::new(C13 { kind, cold: false, greet: false, take1: false, max_steps: 5, observers: 3, membership_only: true });
        h.push(Arc::new(crate::explore::Pinned {
          inner,
          pins: vec![("steps".to_string(), 5), ("h0.op".to_string(), 0), ("h0.who".to_string(), who), ("h1.op".to_string(), op1)],
        }));
      }
    }
  }
  Plan {
    harnesses: h,
    max_paths: if tier == Tier::Quick { 6000 } else { 400000 },
    max_pc: 96,
    bounds: format!(
      "histories of <= {} calls over subscribe_i/unsubscribe_i/connect/disconnect/source emits/terminates, {} subscribers attached directly or through take(1), hot source, hot source that also emits one item inside subscribe (publish, ref_count), or cold source emitting <= 2 items synchronously; one publish connection at a time; joining a terminated publish/ref_count subject is left free",
      steps,
      if tier == Tier::Quick { 2 } else { 3 }
    ),
  }
}

pub fn by_name(name: &str) -> Option<Arc<dyn Harness>> {
  let p: Vec<&str> = name.split('/').collect();
  if p.len() != 6 {
    return None;
  }
  let kind = match p[1] {
    "Publish" => Ck::Publish,
    "RefCount" => Ck::RefCount,
    "Replay" => Ck::Replay,
    _ => return None,
  };
  Some(Arc::new(C13 {
    kind,
    cold: p[2] == "cold",
    greet: p[2] == "hotsync",
    take1: p[3] == "take1",
    observers: p[4].trim_start_matches('O').trim_end_matches('m').parse().ok()?,
    membership_only: p[4].ends_with('m'),
    max_steps: p[5].trim_start_matches('L').parse().ok()?,
  }))
}
