//! C10 - subjects multicast to exactly the current observers; late joiners
//! get history.  Symbolic call histories over
//! {subscribe_i, unsubscribe_i, next(v), error(e), complete} against a
//! reference state machine per subject type; per-observer sequences are
//! compared term by term, ownership by tokens.

use super::{Plan, Tier};
use crate::explore::{Harness, Verdict};
use crate::hlib::*;
use crate::sym::{self, Sym};
use another_rxrust::prelude::*;
use std::sync::Arc;

#[derive(Clone, Copy, Debug, PartialEq)]
pub enum Sk {
  Subject,
  Behavior,
  Replay,
  Async,
}

#[derive(Clone, Copy, Debug, PartialEq)]
pub enum Via {
  Direct,
  Map,
  Take,
}

pub struct C10 {
  pub kind: Sk,
  pub via: Via,
  pub max_steps: usize,
  pub observers: usize,
  /// true: only subscribe / unsubscribe / next (deep membership histories with 3 observers)
  pub membership_only: bool,
}

enum AnySubject {
  S(subjects::Subject<'static, Sym>),
  B(subjects::BehaviorSubject<'static, Sym>),
  R(subjects::ReplaySubject<'static, Sym>),
  A(subjects::AsyncSubject<'static, Sym>),
}

impl AnySubject {
  fn observable(&self) -> Obs {
    match self {
      AnySubject::S(s) => s.observable(),
      AnySubject::B(s) => s.observable(),
      AnySubject::R(s) => s.observable(),
      AnySubject::A(s) => s.observable(),
    }
  }
  fn next(&self, x: Sym) {
    match self {
      AnySubject::S(s) => s.next(x),
      AnySubject::B(s) => s.next(x),
      AnySubject::R(s) => s.next(x),
      AnySubject::A(s) => s.next(x),
    }
  }
  fn error(&self, e: RxError) {
    match self {
      AnySubject::S(s) => s.error(e),
      AnySubject::B(s) => s.error(e),
      AnySubject::R(s) => s.error(e),
      AnySubject::A(s) => s.error(e),
    }
  }
  fn complete(&self) {
    match self {
      AnySubject::S(s) => s.complete(),
      AnySubject::B(s) => s.complete(),
      AnySubject::R(s) => s.complete(),
      AnySubject::A(s) => s.complete(),
    }
  }
}

/// reference state of one observer
#[derive(Clone)]
struct RObs {
  live: bool,
  /// free = the statement does not fix what this observer receives
  free: bool,
  items: Vec<Sym>,
  end: REnd,
  taken: usize,
}

impl Harness for C10 {
  fn name(&self) -> String {
    format!("C10/{:?}/{:?}/O{}{}/L{}", self.kind, self.via, self.observers, if self.membership_only { "m" } else { "" }, self.max_steps)
  }
  fn run(&self) -> Verdict {
    let initial = Sym::var("init", -5);
    let sbj = match self.kind {
      Sk::Subject => AnySubject::S(subjects::Subject::new()),
      Sk::Behavior => AnySubject::B(subjects::BehaviorSubject::new(initial.clone())),
      Sk::Replay => AnySubject::R(subjects::ReplaySubject::new()),
      Sk::Async => AnySubject::A(subjects::AsyncSubject::new()),
    };
    let c = Sym::var("via.c", 100);
    let take_n = if self.via == Via::Take { 1 + sym::choose("via.n", 2) } else { 0 };
    let shared_handle = sym::choose("shared_handle", 2) == 1;
    let the_handle = sbj.observable();
    let no = self.observers;
    let mut recs: Vec<Option<Recorder>> = (0..no).map(|_| None).collect();
    let mut subs: Vec<Option<Subscription<'static>>> = (0..no).map(|_| None).collect();
    let mut robs: Vec<Option<RObs>> = (0..no).map(|_| None).collect();
    // reference state
    let mut history: Vec<Sym> = vec![];
    let mut latest: Option<Sym> = if self.kind == Sk::Behavior { Some(initial.clone()) } else { None };
    let mut terminal: Option<REnd> = None;
    let mut trace: Vec<String> = vec![];
    let mut ended_obs: Vec<usize> = vec![];

    let via = self.via;
    let deliver = |r: &mut RObs, x: &Sym, c: &Sym| {
      if !r.live {
        return;
      }
      let y = if via == Via::Map { x.add(c) } else { x.clone() };
      r.items.push(y);
      r.taken += 1;
      if via == Via::Take && r.taken >= take_n {
        r.live = false;
        r.end = REnd::Complete;
      }
    };
    let finish = |r: &mut RObs, e: REnd| {
      if r.live {
        r.live = false;
        r.end = e;
      }
    };

    let steps = sym::choose("steps", self.max_steps + 1);
    for i in 0..steps {
      let k = sym::choose(&format!("h{}.op", i), if self.membership_only { 3 } else { 5 });
      match k {
        0 => {
          // subscribe_j
          let j = sym::choose(&format!("h{}.who", i), no);
          if recs[j].is_some() {
            continue;
          }
          trace.push(format!("sub{}", j));
          let rec = Recorder::labelled(&format!("{}", j));
          let o = if shared_handle { the_handle.clone() } else { sbj.observable() };
          let o = match self.via {
            Via::Direct => o,
            Via::Map => {
              let c2 = c.clone();
              o.map(move |x: Sym| x.add(&c2))
            }
            Via::Take => o.take(take_n),
          };
          subs[j] = Some(rec.subscribe(&o));
          recs[j] = Some(rec);
          let mut r = RObs { live: true, free: false, items: vec![], end: REnd::Silent, taken: 0 };
          match self.kind {
            Sk::Subject | Sk::Async => {
              if terminal.is_some() {
                // joining a terminated plain/async subject: not fixed by the statement
                r.free = true;
              }
            }
            Sk::Behavior => match &terminal {
              Some(REnd::Error(p)) => finish(&mut r, REnd::Error(p.clone())),
              Some(_) => finish(&mut r, REnd::Complete),
              None => {
                let l = latest.clone().unwrap();
                deliver(&mut r, &l, &c);
              }
            },
            Sk::Replay => {
              for x in history.iter() {
                deliver(&mut r, x, &c);
              }
              match &terminal {
                Some(e) => finish(&mut r, e.clone()),
                None => {}
              }
            }
          }
          robs[j] = Some(r);
        }
        1 => {
          let j = sym::choose(&format!("h{}.who", i), no);
          if let Some(s) = &subs[j] {
            trace.push(format!("unsub{}", j));
            s.unsubscribe();
            if let Some(r) = robs[j].as_mut() {
              r.live = false;
            }
            ended_obs.push(j);
          }
        }
        2 => {
          if terminal.is_some() {
            continue; // bound: the producer is well-formed (ill-formed producers: C01)
          }
          let x = Sym::var(&format!("h{}.x", i), i as i64 + 1);
          trace.push(format!("next({})", x.v));
          sbj.next(x.clone());
          history.push(x.clone());
          latest = Some(x.clone());
          for r in robs.iter_mut().flatten() {
            if self.kind == Sk::Async {
              continue; // only on completion
            }
            deliver(r, &x, &c);
          }
        }
        3 | 4 => {
          if terminal.is_some() {
            continue;
          }
          let e = if k == 3 { REnd::Complete } else { REnd::Error(Sym::var(&format!("h{}.err", i), 70)) };
          trace.push(if k == 3 { "complete".into() } else { "error".into() });
          match &e {
            REnd::Complete => sbj.complete(),
            REnd::Error(p) => sbj.error(rx_err(p)),
            _ => {}
          }
          for r in robs.iter_mut().flatten() {
            if self.kind == Sk::Async && matches!(e, REnd::Complete) {
              if let Some(l) = history.last() {
                // async: the last item, on completion
                let was = r.live;
                if was {
                  let y = if via == Via::Map { l.add(&c) } else { l.clone() };
                  r.items.push(y);
                }
              }
            }
            finish(r, e.clone());
          }
          terminal = Some(e);
        }
        _ => {}
      }
    }
    // ---- compare per observer
    let sig = format!("subject={:?};via={:?}", self.kind, self.via);
    let mut props = vec![];
    let mut summary = vec![];
    for j in 0..no {
      if let (Some(rec), Some(r)) = (&recs[j], &robs[j]) {
        let out = rec.take();
        summary.push(format!("o{}=[{}]", j, short_log(&out)));
        if r.free {
          continue;
        }
        let exp = RStream { items: r.items.clone(), end: r.end.clone() };
        let (p, st) = compare(&out, &exp, &sig);
        if let Some(m) = st {
          return Verdict {
            prop: None,
            structural: Some(format!("observer {}: {} history=[{}]", j, m, trace.join(" "))),
            sample: String::new(),
            signature: format!("{};role=observer-sequence", sig),
            nontrivial: true,
            detail: vec![],
          };
        }
        props.push(p.unwrap());
      }
    }
    // ---- registrations: a plain Subject holds exactly the observers that are still attached (accessor
    // appended to the instrumented copy only; usize::MAX = not available in this tree)
    #[cfg(feature = "instrumented")]
    if let AnySubject::S(s) = &sbj {
      let n = s.vf_observer_count();
      let any_free = robs.iter().flatten().any(|r| r.free);
      let expect = robs.iter().flatten().filter(|r| r.live).count();
      if n != usize::MAX && !any_free && n != expect {
        return Verdict {
          prop: None,
          structural: Some(format!("the Subject holds {} observers, {} are attached [{}] history=[{}]", n, expect, sig, trace.join(" "))),
          sample: String::new(),
          signature: format!("{};role=observer-count", sig),
          nontrivial: true,
          detail: vec![],
        };
      }
    }
    // ---- ownership: the subject holds no observer after a terminal / after it unsubscribed
    let mut gone: Vec<usize> = ended_obs.clone();
    if terminal.is_some() {
      for j in 0..no {
        if let Some(r) = &robs[j] {
          if !r.free {
            gone.push(j);
          }
        }
      }
    }
    gone.sort();
    gone.dedup();
    for j in gone.iter() {
      subs[*j] = None;
      recs[*j] = None;
    }
    let alive: Vec<String> = sym::with(|c| {
      c.tokens
        .iter()
        .filter(|(l, w)| w.upgrade().is_some() && gone.iter().any(|j| l.starts_with(&format!("cb{}:", j))))
        .map(|(l, _)| l.clone())
        .collect()
    });
    if !alive.is_empty() {
      return Verdict {
        prop: None,
        structural: Some(format!(
          "the subject still owns callbacks of observers that left or were terminated: {:?} [{}] history=[{}]",
          alive,
          sig,
          trace.join(" ")
        )),
        sample: String::new(),
        signature: format!("{};role=holds-observer", sig),
        nontrivial: true,
        detail: vec![],
      };
    }
    Verdict {
      prop: Some(sym::t_and(props)),
      structural: None,
      sample: format!("{} history=[{}] {}", sig, trace.join(" "), summary.join(" ")),
      signature: format!("{};role=observer-values", sig),
      nontrivial: !summary.is_empty(),
      detail: vec![],
    }
  }
}

/// a subscriber that arrives from inside another observer's callback, i.e. *during* the delivery of
/// an item or of the terminal (retry / on_error_resume_next resubscribe exactly like this)
pub struct ReentrantJoin {
  pub kind: Sk,
}

impl Harness for ReentrantJoin {
  fn name(&self) -> String {
    format!("C10/reentrant-join/{:?}", self.kind)
  }
  fn run(&self) -> Verdict {
    use std::sync::Mutex;
    let initial = Sym::var("init", -5);
    let sbj = Arc::new(match self.kind {
      Sk::Behavior => AnySubject::B(subjects::BehaviorSubject::new(initial.clone())),
      _ => AnySubject::R(subjects::ReplaySubject::new()),
    });
    let pre = sym::choose("pre", 3);
    let history: Vec<Sym> = (0..pre).map(|i| Sym::var(&format!("p{}", i), i as i64 + 1)).collect();
    for x in history.iter() {
      sbj.next(x.clone());
    }
    // when the newcomer arrives: 0 = during the delivery of an item, 1 = during the terminal
    let when = sym::choose("when", 2);
    let end_is_error = sym::choose("end", 2) == 1;
    let live_item = Sym::var("x", 40);
    let perr = Sym::var("err", 70);
    let rec_a = Recorder::labelled("A");
    let rec_b = Recorder::labelled("B");
    let joined: Arc<Mutex<Option<Subscription<'static>>>> = Arc::new(Mutex::new(None));
    let join = {
      let (sbj, rec_b, joined) = (sbj.clone(), rec_b.clone(), joined.clone());
      move || {
        let mut j = joined.lock().unwrap();
        if j.is_none() {
          *j = Some(rec_b.subscribe(&sbj.observable()));
        }
      }
    };
    let (j1, j2, j3) = (join.clone(), join.clone(), join.clone());
    let (an, ae, ac) = (rec_a.on_next(), rec_a.on_error(), rec_a.on_complete());
    let x_t = live_item.clone();
    let _sub_a = sbj.observable().subscribe(
      move |v: Sym| {
        let is_live = v.t == x_t.t;
        an(v);
        if when == 0 && is_live {
          j1();
        }
      },
      move |e| {
        ae(e);
        if when == 1 {
          j2();
        }
      },
      move || {
        ac();
        if when == 1 {
          j3();
        }
      },
    );
    sbj.next(live_item.clone());
    let after = Sym::var("y", 41);
    sbj.next(after.clone());
    if end_is_error {
      sbj.error(rx_err(&perr));
    } else {
      sbj.complete();
    }
    let end = if end_is_error { REnd::Error(perr.clone()) } else { REnd::Complete };
    // A: what a subscriber arriving after `history` gets
    let mut a_items: Vec<Sym> = match self.kind {
      Sk::Behavior => vec![history.last().cloned().unwrap_or(initial.clone())],
      _ => history.clone(),
    };
    a_items.push(live_item.clone());
    a_items.push(after.clone());
    let exp_a = RStream { items: a_items, end: end.clone() };
    // B: arrives while x (when = 0) or the terminal (when = 1) is being delivered
    let exp_b = match (self.kind, when) {
      (Sk::Behavior, 0) => RStream { items: vec![live_item.clone(), after.clone()], end: end.clone() },
      (Sk::Behavior, _) => RStream { items: vec![], end: end.clone() },
      (_, 0) => {
        let mut v = history.clone();
        v.push(live_item.clone());
        v.push(after.clone());
        RStream { items: v, end: end.clone() }
      }
      (_, _) => {
        let mut v = history.clone();
        v.push(live_item.clone());
        v.push(after.clone());
        RStream { items: v, end: end.clone() }
      }
    };
    let sig = format!("subject={:?};reentrant-join={}", self.kind, ["during-next", "during-terminal"][when]);
    let (pa, sa) = compare(&rec_a.take(), &exp_a, &format!("{};observer=A", sig));
    if let Some(m) = sa {
      return Verdict { prop: None, structural: Some(m), sample: String::new(), signature: format!("{};role=first-observer", sig), nontrivial: true, detail: vec![] };
    }
    let (pb, sb) = compare(&rec_b.take(), &exp_b, &format!("{};observer=B", sig));
    if let Some(m) = sb {
      return Verdict { prop: None, structural: Some(m), sample: String::new(), signature: format!("{};role=joiner", sig), nontrivial: true, detail: vec![] };
    }
    Verdict {
      prop: Some(sym::t_and(vec![pa.unwrap(), pb.unwrap()])),
      structural: None,
      sample: format!("{} A=[{}] B=[{}]", sig, short_log(&rec_a.take()), short_log(&rec_b.take())),
      signature: format!("{};role=values", sig),
      nontrivial: true,
      detail: vec![],
    }
  }
}

pub fn plan(tier: Tier, _seed: u64) -> Plan {
  let mut h: Vec<Arc<dyn Harness>> = vec![];
  let steps = if tier == Tier::Quick { 5 } else { 7 };
  h.push(Arc::new(ReentrantJoin { kind: Sk::Behavior }));
  h.push(Arc::new(ReentrantJoin { kind: Sk::Replay }));
  for kind in [Sk::Subject, Sk::Behavior, Sk::Replay, Sk::Async] {
    for via in [Via::Direct, Via::Map, Via::Take] {
      h.push(Arc::new(C10 { kind, via, max_steps: steps, observers: if tier == Tier::Quick { 2 } else { 3 }, membership_only: false }));
    }
    // three observers joining and leaving in every order (sliced over the first decisions)
    for who in 0..3i64 {
      for op1 in 0..3i64 {
        let inner: Arc<dyn Harness> = Arc::new(C10 { kind, via: Via::Direct, max_steps: 5, observers: 3, membership_only: true });
        h.push(Arc::new(crate::explore::Pinned {
          inner,
          pins: vec![("steps".to_string(), 5), ("h0.op".to_string(), 0), ("h0.who".to_string(), who), ("h1.op".to_string(), op1)],
        }));
      }
    }
  }
  Plan {
    harnesses: h,
    max_paths: if tier == Tier::Quick { 6000 } else { 400000 },
    max_pc: 96,
    bounds: format!(
      "histories of <= {} calls over subscribe_i/unsubscribe_i/next(v)/error/complete, {} observers, symbolic values, observers attached directly, through map(x+c) and through take(1..2); producer well-formed (no event after its terminal); what a subscriber joining a *terminated* Subject/AsyncSubject receives is left free",
      steps,
      if tier == Tier::Quick { 2 } else { 3 }
    ),
  }
}

pub fn by_name(name: &str) -> Option<Arc<dyn Harness>> {
  let p: Vec<&str> = name.split('/').collect();
  if p.len() == 3 && p[1] == "reentrant-join" {
    return Some(Arc::new(ReentrantJoin { kind: if p[2] == "Behavior" { Sk::Behavior } else { Sk::Replay } }));
  }
  if p.len() != 5 {
    return None;
  }
  let kind = match p[1] {
    "Subject" => Sk::Subject,
    "Behavior" => Sk::Behavior,
    "Replay" => Sk::Replay,
    "Async" => Sk::Async,
    _ => return None,
  };
  let via = match p[2] {
    "Direct" => Via::Direct,
    "Map" => Via::Map,
    "Take" => Via::Take,
    _ => return None,
  };
  Some(Arc::new(C10 {
    kind,
    via,
    observers: p[3].trim_start_matches('O').trim_end_matches('m').parse().ok()?,
    membership_only: p[3].ends_with('m'),
    max_steps: p[4].trim_start_matches('L').parse().ok()?,
  }))
}
