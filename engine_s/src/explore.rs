//! Generational (SAGE-style) concolic search over one harness.
//!
//! Each work item is an input valuation (a model of the solver variables).
//! The harness is executed natively on the real crate with that valuation;
//! the recorded path constraint PC is handed to z3:
//!   * property query  PC ∧ ¬Prop           (unsat: holds for every valuation
//!     that follows this path; sat: counterexample values)
//!   * coverage queries PC[0..k) ∧ alt_k    for every alternative of every
//!     recorded branch with k >= bound (sat: new work item; unsat: that side
//!     is infeasible inside the bounds)
//! When the work-list runs empty the bounded input space has been
//! partitioned completely into solver-decided paths.

use crate::rtx::{self, Outcome};
use crate::smt::{Sat, Solver};
use crate::sym::{self, Branch, Ctx, TermId};
use serde_json::{json, Value};
use std::collections::{HashMap, VecDeque};
use std::sync::{Arc, Mutex};

/// What one execution of a harness reports.
#[derive(Clone, Debug, Default)]
pub struct Verdict {
  /// boolean term that must be valid under the path constraint
  pub prop: Option<TermId>,
  /// violated independently of the symbolic values (shape mismatch etc.)
  pub structural: Option<String>,
  /// printable description of the case (inputs, outputs, expectation)
  pub sample: String,
  /// key of the failing role, e.g. "skip_while:items" (known-finding match)
  pub signature: String,
  /// the case exercises the property non-trivially (evidence accounting)
  pub nontrivial: bool,
  /// abnormal outcomes (deadlock/fuel/panic) are expected and judged by the
  /// harness itself through `judge_abnormal`
  pub detail: Vec<String>,
}

pub trait Harness: Send + Sync {
  fn name(&self) -> String;
  /// runs inside an execution with a symbolic context installed
  fn run(&self) -> Verdict;
  /// signature for an abnormal end of the execution; None = not a violation
  fn judge_abnormal(&self, o: &Outcome, notes: &[String]) -> Option<(String, String)> {
    let _ = notes;
    match o {
      Outcome::Finished => None,
      Outcome::Deadlock(b) => {
        let sites: Vec<String> = b.iter().map(|x| format!("{}@{}", x.1, x.3)).collect();
        Some((format!("abnormal:self-deadlock:{}", sites.join(",")), format!("{:?}", b)))
      }
      Outcome::StepLimit => Some(("abnormal:step-limit".into(), String::new())),
      Outcome::Fuel => Some(("abnormal:fuel".into(), "producer keeps running (fuel exhausted)".into())),
      Outcome::Panic(m) => Some((format!("abnormal:panic:{}", first_line(m)), m.clone())),
      Outcome::Hang => Some(("abnormal:hang".into(), String::new())),
    }
  }
  fn fuel(&self) -> i64 {
    4000
  }
}

/// the same harness with some structural decisions pinned (one slice of its
/// exploration; the slices of all pin values partition it)
pub struct Pinned {
  pub inner: Arc<dyn Harness>,
  pub pins: Vec<(String, i64)>,
}

impl Harness for Pinned {
  fn name(&self) -> String {
    let p: Vec<String> = self.pins.iter().map(|(k, v)| format!("{}={}", k, v)).collect();
    format!("{}@{}", self.inner.name(), p.join(","))
  }
  fn run(&self) -> Verdict {
    sym::with(|c| {
      for (k, v) in self.pins.iter() {
        c.frozen.insert(k.clone(), *v);
      }
    });
    self.inner.run()
  }
  fn judge_abnormal(&self, o: &Outcome, notes: &[String]) -> Option<(String, String)> {
    self.inner.judge_abnormal(o, notes)
  }
  fn fuel(&self) -> i64 {
    self.inner.fuel()
  }
}

pub fn parse_pins(name: &str) -> (String, Vec<(String, i64)>) {
  match name.split_once('@') {
    Some((base, pins)) => {
      let v = pins
        .split(',')
        .filter_map(|kv| kv.split_once('=').and_then(|(k, v)| v.parse().ok().map(|v| (k.to_string(), v))))
        .collect();
      (base.to_string(), v)
    }
    None => (name.to_string(), vec![]),
  }
}

fn first_line(s: &str) -> String {
  s.lines().next().unwrap_or("").chars().take(80).collect()
}

#[derive(Clone, Debug)]
pub struct Violation {
  pub harness: String,
  pub signature: String,
  pub message: String,
  pub model: HashMap<String, i64>,
  pub sample: String,
  pub hash_seed: u64,
}

impl Violation {
  pub fn to_json(&self) -> Value {
    json!({
      "harness": self.harness,
      "signature": self.signature,
      "message": self.message,
      "model": self.model,
      "sample": self.sample,
      "hash_seed": self.hash_seed,
    })
  }
}

#[derive(Default, Clone, Debug)]
pub struct Stats {
  pub executions: u64,
  pub paths: u64,
  pub nontrivial: u64,
  pub alternatives_sat: u64,
  pub alternatives_unsat: u64,
  pub prop_queries: u64,
  pub prop_unsat: u64,
  pub prop_sat: u64,
  pub divergent: u64,
  pub abnormal: u64,
  pub pending: u64,
  pub unknown: u64,
  pub max_pc: usize,
  pub samples: Vec<String>,
  pub exhaustive: bool,
}

struct Item {
  model: HashMap<String, i64>,
  bound: usize,
  /// branch outcomes the execution is expected to reproduce (divergence guard)
  expect: Vec<i64>,
}

pub struct Budget {
  pub max_paths: u64,
  pub max_pc: usize,
}

fn outcome_code(b: &Branch) -> i64 {
  match b {
    Branch::Bool { taken, .. } => *taken as i64,
    Branch::Switch { val, .. } => *val,
  }
}

pub struct RunOut {
  pub ctx: Ctx,
  pub outcome: Outcome,
  pub verdict: Option<Verdict>,
}

/// one native execution of the harness under `model`
pub fn execute(h: &Arc<dyn Harness>, model: &HashMap<String, i64>, hash_seed: u64) -> RunOut {
  sym::install(Ctx::new(model.clone(), h.fuel()));
  let slot: Arc<Mutex<Option<Verdict>>> = Arc::new(Mutex::new(None));
  let slot2 = slot.clone();
  let h2 = h.clone();
  let outcome = rtx::run(hash_seed, 2_000_000, move || {
    let v = h2.run();
    *slot2.lock().unwrap() = Some(v);
  });
  let ctx = sym::uninstall();
  let verdict = slot.lock().unwrap().take();
  RunOut { ctx, outcome, verdict }
}

fn declare_vars(s: &mut Solver, ctx: &Ctx) {
  let mut q = String::new();
  for (i, v) in ctx.vars.iter().enumerate() {
    q.push_str(&format!(
      "(declare-const v{} Int)(assert (and (<= {} v{}) (<= v{} {})))\n",
      i,
      sym::smt_int(v.lo),
      i,
      i,
      sym::smt_int(v.hi)
    ));
  }
  s.send(&q);
}

fn branch_taken_smt(ctx: &Ctx, b: &Branch) -> String {
  let mut out = String::new();
  match b {
    Branch::Bool { cond, taken, .. } => {
      if !*taken {
        out.push_str("(not ");
      }
      sym::smt_term(&ctx.terms, *cond, &mut out);
      if !*taken {
        out.push(')');
      }
    }
    Branch::Switch { var, val, .. } => {
      out.push_str("(= ");
      sym::smt_term(&ctx.terms, *var, &mut out);
      out.push(' ');
      out.push_str(&sym::smt_int(*val));
      out.push(')');
    }
  }
  out
}

fn alternatives(ctx: &Ctx, b: &Branch) -> Vec<(String, i64)> {
  match b {
    Branch::Bool { cond, taken, .. } => {
      let mut out = String::new();
      if *taken {
        out.push_str("(not ");
      }
      sym::smt_term(&ctx.terms, *cond, &mut out);
      if *taken {
        out.push(')');
      }
      vec![(out, (!*taken) as i64)]
    }
    Branch::Switch { var, val, n } => (0..*n)
      .filter(|x| x != val)
      .map(|x| {
        let mut out = String::from("(= ");
        sym::smt_term(&ctx.terms, *var, &mut out);
        out.push(' ');
        out.push_str(&sym::smt_int(x));
        out.push(')');
        (out, x)
      })
      .collect(),
  }
}

fn model_of(ctx: &Ctx, vals: &[i64]) -> HashMap<String, i64> {
  ctx.vars.iter().zip(vals).map(|(v, x)| (v.name.clone(), *x)).collect()
}

fn push_violation(vs: &mut Vec<Violation>, v: Violation) {
  // keep the first witness per (harness, signature)
  if !vs.iter().any(|x| x.signature == v.signature && x.harness == v.harness) {
    vs.push(v);
  }
}

pub struct Explorer {
  pub solver: Solver,
  pub stats: Stats,
  pub violations: Vec<Violation>,
  pub errors: Vec<String>,
  pub hash_seeds: Vec<u64>,
  /// wall-clock guard (loaded machine): exploration of a harness stops here and is reported as pending
  pub deadline: Option<std::time::Instant>,
}

impl Explorer {
  pub fn new(hash_seeds: Vec<u64>) -> Explorer {
    Explorer {
      solver: Solver::new(),
      stats: Stats { exhaustive: true, ..Default::default() },
      violations: vec![],
      errors: vec![],
      hash_seeds,
      deadline: None,
    }
  }


  pub fn explore(&mut self, h: Arc<dyn Harness>, budget: &Budget) {
    let seeds = self.hash_seeds.clone();
    for hs in seeds {
      self.explore_seed(h.clone(), budget, hs);
    }
  }

  fn explore_seed(&mut self, h: Arc<dyn Harness>, budget: &Budget, hash_seed: u64) {
    let mut work: VecDeque<Item> = VecDeque::new();
    work.push_back(Item { model: HashMap::new(), bound: 0, expect: vec![] });
    let mut paths_here = 0u64;
    while let Some(item) = work.pop_front() {
      if paths_here >= budget.max_paths || self.deadline.map_or(false, |d| std::time::Instant::now() > d) {
        self.stats.pending += work.len() as u64 + 1;
        self.stats.exhaustive = false;
        break;
      }
      paths_here += 1;
      let out = execute(&h, &item.model, hash_seed);
      self.stats.executions += 1;
      let ctx = &out.ctx;
      // divergence guard
      let got: Vec<i64> = ctx.pc.iter().map(outcome_code).collect();
      if got.len() < item.expect.len() || got[..item.expect.len()] != item.expect[..] {
        self.stats.divergent += 1;
        self.stats.exhaustive = false;
        if std::env::var("VERIF_DEBUG_DIV").is_ok() {
          let k = item.expect.iter().zip(got.iter()).position(|(a, b)| a != b).unwrap_or(got.len().min(item.expect.len()));
          eprintln!("DIVERGENCE {} at {} expect {:?} got {:?} branch {:?} sample {:?}", h.name(), k, &item.expect[k.saturating_sub(2)..(k + 1).min(item.expect.len())], &got[k.saturating_sub(2)..(k + 1).min(got.len())], ctx.pc.get(k), out.verdict.as_ref().map(|v| v.sample.clone()));
        }
        continue;
      }
      self.stats.paths += 1;
      self.stats.max_pc = self.stats.max_pc.max(ctx.pc.len());

      // ---- judge the execution
      let mut structural: Option<(String, String)> = None;
      let mut prop: Option<TermId> = None;
      let sample;
      match (&out.outcome, &out.verdict) {
        (Outcome::Finished, Some(v)) => {
          if v.nontrivial {
            self.stats.nontrivial += 1;
          }
          sample = v.sample.clone();
          if let Some(m) = &v.structural {
            structural = Some((v.signature.clone(), m.clone()));
          } else {
            prop = v.prop;
          }
        }
        (o, _) => {
          self.stats.abnormal += 1;
          if let Some((sig, msg)) = h.judge_abnormal(o, &ctx.notes) {
            structural = Some((sig, msg));
          }
          sample = format!("{:?} notes={:?}", o, ctx.notes);
        }
      }
      if self.stats.samples.len() < 6 && !sample.is_empty() && (self.stats.paths % 7 == 1) {
        self.stats.samples.push(format!("{} :: {}", h.name(), sample));
      }

      // ---- solver
      let s = &mut self.solver;
      s.send("(push)\n");
      declare_vars(s, ctx);
      let limit = ctx.pc.len().min(budget.max_pc);
      if ctx.pc.len() > budget.max_pc {
        self.stats.exhaustive = false;
      }
      for k in 0..limit {
        let b = &ctx.pc[k];
        if k >= item.bound {
          for (alt, code) in alternatives(ctx, b) {
            s.send(&format!("(push)(assert {})\n", alt));
            match s.check() {
              Sat::Sat => {
                self.stats.alternatives_sat += 1;
                match s.get_values(ctx.vars.len()) {
                  Some(vals) => {
                    let mut expect: Vec<i64> = got[..k].to_vec();
                    expect.push(code);
                    work.push_back(Item { model: model_of(ctx, &vals), bound: k + 1, expect });
                  }
                  None => {
                    self.stats.unknown += 1;
                    self.errors.push("get-value failed".into());
                  }
                }
              }
              Sat::Unsat => self.stats.alternatives_unsat += 1,
              Sat::Unknown(m) => {
                self.stats.unknown += 1;
                self.errors.push(format!("solver: {}", m));
              }
            }
            s.send("(pop)\n");
          }
        }
        s.send(&format!("(assert {})\n", branch_taken_smt(ctx, b)));
      }
      // property
      if let Some((sig, msg)) = structural {
        let model = ctx.vars.iter().map(|v| (v.name.clone(), v.value)).collect();
        self.stats.prop_sat += 1;
        push_violation(&mut self.violations, Violation {
          harness: h.name(),
          signature: sig,
          message: msg,
          model,
          sample: sample.clone(),
          hash_seed,
        });
      } else if let Some(p) = prop {
        let mut q = String::from("(push)(assert (not ");
        sym::smt_term(&ctx.terms, p, &mut q);
        q.push_str("))\n");
        s.send(&q);
        self.stats.prop_queries += 1;
        match s.check() {
          Sat::Unsat => self.stats.prop_unsat += 1,
          Sat::Sat => {
            self.stats.prop_sat += 1;
            let vals = s.get_values(ctx.vars.len());
            let v = out.verdict.as_ref().unwrap();
            match vals {
              Some(vals) => {
                let model = model_of(ctx, &vals);
                // re-execute under the counterexample to obtain its own description
                s.send("(pop)\n(pop)\n");
                let out2 = execute(&h, &model, hash_seed);
                self.stats.executions += 1;
                let desc = out2.verdict.as_ref().map(|x| x.sample.clone()).unwrap_or_default();
                push_violation(&mut self.violations, Violation {
                  harness: h.name(),
                  signature: v.signature.clone(),
                  message: "values differ from the reference under the path constraint".into(),
                  model,
                  sample: desc,
                  hash_seed,
                });
                continue;
              }
              None => {
                self.stats.unknown += 1;
                self.errors.push("get-value failed (property)".into());
              }
            }
          }
          Sat::Unknown(m) => {
            self.stats.unknown += 1;
            self.errors.push(format!("solver: {}", m));
          }
        }
        s.send("(pop)\n");
      }
      s.send("(pop)\n");
    }
  }
}
