//! Execution substrate.  With feature `instrumented` (the default for the
//! checks) executions run on the instrumented copy's runtime: modelled locks,
//! self-deadlock detection, virtual time.  Without it (replays against the
//! pristine /repo build) the closure simply runs on an OS thread with real
//! std primitives and a wall-clock watchdog for hangs.

#[derive(Debug, Clone, PartialEq)]
pub enum Outcome {
  Finished,
  /// (task, kind, detail, site) per blocked task
  Deadlock(Vec<(usize, String, String, String)>),
  StepLimit,
  Fuel,
  Panic(String),
  /// pristine replays only: no result within the watchdog time
  Hang,
}

#[cfg(feature = "instrumented")]
mod imp {
  use super::Outcome;
  use another_rxrust::vf::rt;

  pub fn abort_fuel() -> ! {
    rt::abort_fuel()
  }

  pub fn run<F: FnOnce() + Send + 'static>(hash_seed: u64, max_steps: u64, f: F) -> Outcome {
    let mut cfg = rt::Config::default();
    cfg.hash_seed = hash_seed;
    cfg.max_steps = max_steps;
    let r = rt::run(cfg, f);
    if let Some((_, m)) = r.panics.first() {
      // a harness assertion or a library panic
      if r.abort.is_none() || r.abort == Some(rt::Abort::Fuel) {
        if r.abort == Some(rt::Abort::Fuel) {
          return Outcome::Fuel;
        }
        return Outcome::Panic(m.clone());
      }
    }
    match r.abort {
      None => Outcome::Finished,
      Some(rt::Abort::Fuel) => Outcome::Fuel,
      Some(rt::Abort::StepLimit { .. }) => Outcome::StepLimit,
      Some(rt::Abort::Deadlock(b)) => Outcome::Deadlock(
        b.into_iter().map(|(t, k, d, s)| (t, k.to_string(), d, s)).collect(),
      ),
    }
  }
}

#[cfg(not(feature = "instrumented"))]
mod imp {
  use super::Outcome;
  use std::sync::mpsc;
  use std::time::Duration;

  pub struct FuelUnwind;

  pub fn abort_fuel() -> ! {
    std::panic::resume_unwind(Box::new(FuelUnwind));
  }

  pub fn run<F: FnOnce() + Send + 'static>(_hash_seed: u64, _max_steps: u64, f: F) -> Outcome {
    let (tx, rx) = mpsc::channel();
    std::thread::Builder::new()
      .stack_size(64 << 20)
      .spawn(move || {
        let r = std::panic::catch_unwind(std::panic::AssertUnwindSafe(f));
        let o = match r {
          Ok(()) => Outcome::Finished,
          Err(p) => {
            if p.is::<FuelUnwind>() {
              Outcome::Fuel
            } else if let Some(s) = p.downcast_ref::<String>() {
              Outcome::Panic(s.clone())
            } else if let Some(s) = p.downcast_ref::<&str>() {
              Outcome::Panic(s.to_string())
            } else {
              Outcome::Panic("<panic>".into())
            }
          }
        };
        let _ = tx.send(o);
      })
      .unwrap();
    match rx.recv_timeout(Duration::from_secs(5)) {
      Ok(o) => o,
      Err(_) => Outcome::Hang,
    }
  }
}

pub use imp::{abort_fuel, run};
