//! Symbolic values with concrete shadows (concolic execution).
//!
//! A `Sym` is what flows through the real crate's pipelines as the item type.
//! Arithmetic builds SMT terms; every comparison returns the shadow's answer
//! and appends the branch condition to the path constraint of the running
//! execution.  Structural decisions of the harness (`choose`) are bounded
//! integer solver variables recorded as n-way switches.

use std::collections::HashMap;
use std::sync::{Arc, Mutex, Weak};

pub type TermId = u32;

#[derive(Clone, Debug, PartialEq)]
pub enum Term {
  Var(usize),
  Const(i64),
  Add(TermId, TermId),
  Sub(TermId, TermId),
  // booleans
  Eq(TermId, TermId),
  Lt(TermId, TermId),
  Le(TermId, TermId),
  Not(TermId),
  And(Vec<TermId>),
  Or(Vec<TermId>),
  True,
  False,
}

#[derive(Clone, Debug)]
pub struct VarDecl {
  pub name: String,
  pub lo: i64,
  pub hi: i64,
  pub value: i64,
}

#[derive(Clone, Debug)]
pub enum Branch {
  /// two-way branch on a boolean term; `taken` is the shadow's outcome
  Bool { cond: TermId, taken: bool, origin: &'static str },
  /// n-way structural decision on variable term `var` with domain 0..n
  Switch { var: TermId, val: i64, n: i64 },
}

pub struct Ctx {
  pub model: HashMap<String, i64>,
  pub vars: Vec<VarDecl>,
  pub var_ix: HashMap<String, usize>,
  pub terms: Vec<Term>,
  pub pc: Vec<Branch>,
  pub fuel: i64,
  pub fuel_out: bool,
  pub tokens: Vec<(String, Weak<()>)>,
  pub notes: Vec<String>,
  /// when > 0 comparisons are evaluated on shadows without being recorded
  pub quiet: u32,
  /// structural decisions pinned by the harness instance (sharding of one
  /// exploration over several processes): not recorded as switches
  pub frozen: HashMap<String, i64>,
}

impl Ctx {
  pub fn new(model: HashMap<String, i64>, fuel: i64) -> Ctx {
    Ctx {
      model,
      vars: vec![],
      var_ix: HashMap::new(),
      terms: vec![],
      pc: vec![],
      fuel,
      fuel_out: false,
      tokens: vec![],
      notes: vec![],
      quiet: 0,
      frozen: HashMap::new(),
    }
  }
  pub fn term(&mut self, t: Term) -> TermId {
    self.terms.push(t);
    (self.terms.len() - 1) as TermId
  }
}

static CTX: Mutex<Option<Ctx>> = Mutex::new(None);

pub fn install(ctx: Ctx) {
  *CTX.lock().unwrap_or_else(|p| p.into_inner()) = Some(ctx);
}
pub fn uninstall() -> Ctx {
  CTX.lock().unwrap_or_else(|p| p.into_inner()).take().expect("no ctx")
}
pub fn with<R>(f: impl FnOnce(&mut Ctx) -> R) -> R {
  let mut g = CTX.lock().unwrap_or_else(|p| p.into_inner());
  f(g.as_mut().expect("no symbolic context installed"))
}

/// burn one unit of fuel; unwinds the execution when exhausted
pub fn burn() {
  let out = with(|c| {
    c.fuel -= 1;
    if c.fuel < 0 {
      c.fuel_out = true;
      true
    } else {
      false
    }
  });
  if out {
    crate::rtx::abort_fuel();
  }
}

pub fn note(s: String) {
  with(|c| c.notes.push(s));
}

pub const VAL_LO: i64 = -(1 << 20);
pub const VAL_HI: i64 = 1 << 20;

#[derive(Clone)]
pub struct Sym {
  pub t: TermId,
  pub v: i64,
  /// concrete structural label (window/group index, material kind, ...)
  pub tag: i32,
  tok: Option<Arc<()>>,
}

impl std::fmt::Debug for Sym {
  fn fmt(&self, f: &mut std::fmt::Formatter<'_>) -> std::fmt::Result {
    write!(f, "Sym(t{}={},tag{})", self.t, self.v, self.tag)
  }
}

fn new_token(label: &str) -> Option<Arc<()>> {
  let a = Arc::new(());
  with(|c| c.tokens.push((label.to_string(), Arc::downgrade(&a))));
  Some(a)
}

/// a token to be captured by a closure handed to the library (C17)
pub fn closure_token(label: &str) -> Arc<()> {
  new_token(label).unwrap()
}

fn declare(c: &mut Ctx, name: &str, lo: i64, hi: i64, default: i64) -> (TermId, i64) {
  if let Some(ix) = c.var_ix.get(name) {
    let ix = *ix;
    let v = c.vars[ix].value;
    let t = c.term(Term::Var(ix));
    return (t, v);
  }
  let mut v = *c.model.get(name).unwrap_or(&default);
  if v < lo || v > hi {
    v = default;
  }
  let ix = c.vars.len();
  c.vars.push(VarDecl { name: name.to_string(), lo, hi, value: v });
  c.var_ix.insert(name.to_string(), ix);
  let t = c.term(Term::Var(ix));
  (t, v)
}

impl Sym {
  /// a fresh symbolic integer (item value, threshold, payload ...)
  pub fn var(name: &str, default: i64) -> Sym {
    let (t, v) = with(|c| declare(c, name, VAL_LO, VAL_HI, default));
    Sym { t, v, tag: 0, tok: new_token(name) }
  }
  /// a symbolic integer with its own domain (durations: positive, small)
  pub fn var_in(name: &str, lo: i64, hi: i64, default: i64) -> Sym {
    let (t, v) = with(|c| declare(c, name, lo, hi, default));
    Sym { t, v, tag: 0, tok: new_token(name) }
  }
  pub fn konst(v: i64) -> Sym {
    let t = with(|c| c.term(Term::Const(v)));
    Sym { t, v, tag: 0, tok: new_token("const") }
  }
  pub fn with_tag(mut self, tag: i32) -> Sym {
    self.tag = tag;
    self
  }
  pub fn plain(&self) -> Plain {
    Plain { t: self.t, v: self.v, tag: self.tag }
  }
  fn bin(&self, o: &Sym, mk: fn(TermId, TermId) -> Term, v: i64) -> Sym {
    let t = with(|c| c.term(mk(self.t, o.t)));
    Sym { t, v, tag: self.tag, tok: new_token("derived") }
  }
  pub fn add(&self, o: &Sym) -> Sym {
    self.bin(o, Term::Add, self.v.wrapping_add(o.v))
  }
  pub fn sub(&self, o: &Sym) -> Sym {
    self.bin(o, Term::Sub, self.v.wrapping_sub(o.v))
  }
  pub fn sym_eq(&self, o: &Sym, origin: &'static str) -> bool {
    let r = self.v == o.v;
    if self.tag != o.tag {
      return false;
    }
    branch(Term::Eq(self.t, o.t), r, origin);
    r
  }
  pub fn sym_lt(&self, o: &Sym, origin: &'static str) -> bool {
    let r = self.v < o.v;
    branch(Term::Lt(self.t, o.t), r, origin);
    r
  }
  pub fn sym_le(&self, o: &Sym, origin: &'static str) -> bool {
    let r = self.v <= o.v;
    branch(Term::Le(self.t, o.t), r, origin);
    r
  }
}

/// token-free record of a Sym (what recorders keep)
#[derive(Clone, Debug, PartialEq)]
pub struct Plain {
  pub t: TermId,
  pub v: i64,
  pub tag: i32,
}

fn branch(t: Term, taken: bool, origin: &'static str) {
  burn();
  with(|c| {
    if c.quiet > 0 {
      return;
    }
    let cond = c.term(t);
    c.pc.push(Branch::Bool { cond, taken, origin });
  });
}

/// bounded structural decision: value in 0..n, solver variable `name`
pub fn choose(name: &str, n: usize) -> usize {
  assert!(n >= 1);
  if n == 1 {
    return 0;
  }
  if let Some(v) = with(|c| c.frozen.get(name).copied()) {
    return (v as usize).min(n - 1);
  }
  with(|c| {
    let (t, v) = declare(c, name, 0, n as i64 - 1, 0);
    // record the switch only the first time the variable is consulted
    let already = c.pc.iter().any(|b| match b {
      Branch::Switch { var, .. } => {
        matches!((&c.terms[*var as usize], &c.terms[t as usize]), (Term::Var(a), Term::Var(b)) if a == b)
      }
      _ => false,
    });
    if !already {
      c.pc.push(Branch::Switch { var: t, val: v, n: n as i64 });
    }
    v as usize
  })
}

pub fn quiet<R>(f: impl FnOnce() -> R) -> R {
  with(|c| c.quiet += 1);
  let r = f();
  with(|c| c.quiet -= 1);
  r
}

impl PartialEq for Sym {
  fn eq(&self, o: &Sym) -> bool {
    self.sym_eq(o, "lib:eq")
  }
}
impl PartialOrd for Sym {
  fn partial_cmp(&self, o: &Sym) -> Option<std::cmp::Ordering> {
    if self.sym_lt(o, "lib:cmp") {
      Some(std::cmp::Ordering::Less)
    } else if self.sym_eq(o, "lib:cmp") {
      Some(std::cmp::Ordering::Equal)
    } else {
      Some(std::cmp::Ordering::Greater)
    }
  }
  fn lt(&self, o: &Sym) -> bool {
    self.sym_lt(o, "lib:lt")
  }
  fn gt(&self, o: &Sym) -> bool {
    o.sym_lt(self, "lib:gt")
  }
  fn le(&self, o: &Sym) -> bool {
    self.sym_le(o, "lib:le")
  }
  fn ge(&self, o: &Sym) -> bool {
    o.sym_le(self, "lib:ge")
  }
}
impl std::ops::Add for Sym {
  type Output = Sym;
  fn add(self, o: Sym) -> Sym {
    burn();
    Sym::add(&self, &o)
  }
}

// ---------------------------------------------------------------------------
// boolean term construction for properties
// ---------------------------------------------------------------------------

pub fn t_eq(a: TermId, b: TermId) -> TermId {
  with(|c| c.term(Term::Eq(a, b)))
}
pub fn t_and(v: Vec<TermId>) -> TermId {
  with(|c| c.term(if v.is_empty() { Term::True } else { Term::And(v) }))
}
pub fn t_true() -> TermId {
  with(|c| c.term(Term::True))
}
pub fn t_false() -> TermId {
  with(|c| c.term(Term::False))
}

// ---------------------------------------------------------------------------
// SMT-LIB printing
// ---------------------------------------------------------------------------

pub fn smt_int(v: i64) -> String {
  if v < 0 {
    format!("(- {})", -(v as i128))
  } else {
    format!("{}", v)
  }
}

pub fn smt_term(terms: &[Term], t: TermId, out: &mut String) {
  match &terms[t as usize] {
    Term::Var(ix) => out.push_str(&format!("v{}", ix)),
    Term::Const(v) => out.push_str(&smt_int(*v)),
    Term::Add(a, b) => bin(terms, "+", *a, *b, out),
    Term::Sub(a, b) => bin(terms, "-", *a, *b, out),
    Term::Eq(a, b) => bin(terms, "=", *a, *b, out),
    Term::Lt(a, b) => bin(terms, "<", *a, *b, out),
    Term::Le(a, b) => bin(terms, "<=", *a, *b, out),
    Term::Not(a) => {
      out.push_str("(not ");
      smt_term(terms, *a, out);
      out.push(')');
    }
    Term::And(v) => nary(terms, "and", v, out),
    Term::Or(v) => nary(terms, "or", v, out),
    Term::True => out.push_str("true"),
    Term::False => out.push_str("false"),
  }
}
fn bin(terms: &[Term], op: &str, a: TermId, b: TermId, out: &mut String) {
  out.push('(');
  out.push_str(op);
  out.push(' ');
  smt_term(terms, a, out);
  out.push(' ');
  smt_term(terms, b, out);
  out.push(')');
}
fn nary(terms: &[Term], op: &str, v: &[TermId], out: &mut String) {
  if v.is_empty() {
    out.push_str(if op == "and" { "true" } else { "false" });
    return;
  }
  out.push('(');
  out.push_str(op);
  for t in v {
    out.push(' ');
    smt_term(terms, *t, out);
  }
  out.push(')');
}

/// evaluate a term on the shadow valuation (used by replays and by the
/// self-check that the solver's model and the shadows agree)
pub fn eval(terms: &[Term], vars: &[VarDecl], t: TermId) -> i64 {
  match &terms[t as usize] {
    Term::Var(ix) => vars[*ix].value,
    Term::Const(v) => *v,
    Term::Add(a, b) => eval(terms, vars, *a).wrapping_add(eval(terms, vars, *b)),
    Term::Sub(a, b) => eval(terms, vars, *a).wrapping_sub(eval(terms, vars, *b)),
    Term::Eq(a, b) => (eval(terms, vars, *a) == eval(terms, vars, *b)) as i64,
    Term::Lt(a, b) => (eval(terms, vars, *a) < eval(terms, vars, *b)) as i64,
    Term::Le(a, b) => (eval(terms, vars, *a) <= eval(terms, vars, *b)) as i64,
    Term::Not(a) => (eval(terms, vars, *a) == 0) as i64,
    Term::And(v) => v.iter().all(|x| eval(terms, vars, *x) != 0) as i64,
    Term::Or(v) => v.iter().any(|x| eval(terms, vars, *x) != 0) as i64,
    Term::True => 1,
    Term::False => 0,
  }
}
