//! Harness building blocks: recorders, cold/hot instrumented sources,
//! reference streams and the term-wise comparison.

use crate::explore::Verdict;
use crate::sym::{self, burn, Plain, Sym, TermId};
use another_rxrust::prelude::*;
use std::sync::{Arc, Mutex};

pub type Obs = Observable<'static, Sym>;

/// error payload type carried through RxError
#[derive(Clone, Debug)]
pub struct Payload(pub Sym);

pub fn rx_err(p: &Sym) -> RxError {
  RxError::from_error(Payload(p.clone()))
}

#[derive(Clone, Debug, PartialEq)]
pub enum Rec {
  Next(Plain),
  /// payload if it downcasts to `Payload`
  Error(Option<Plain>),
  Complete,
}

impl Rec {
  pub fn short(&self) -> String {
    match self {
      Rec::Next(p) => {
        if p.tag != 0 {
          format!("n{}#{}", p.v, p.tag)
        } else {
          format!("n{}", p.v)
        }
      }
      Rec::Error(Some(p)) => format!("E{}", p.v),
      Rec::Error(None) => "E?".into(),
      Rec::Complete => "C".into(),
    }
  }
}

pub fn short_log(l: &[Rec]) -> String {
  l.iter().map(|r| r.short()).collect::<Vec<_>>().join(",")
}

#[derive(Clone)]
pub struct Recorder {
  pub log: Arc<Mutex<Vec<Rec>>>,
  tok: Arc<()>,
  pub label: String,
}

impl Recorder {
  pub fn new() -> Recorder {
    Recorder { log: Arc::new(Mutex::new(vec![])), tok: sym::closure_token("subscriber"), label: String::new() }
  }
  pub fn labelled(label: &str) -> Recorder {
    Recorder { log: Arc::new(Mutex::new(vec![])), tok: sym::closure_token("subscriber"), label: label.to_string() }
  }
  pub fn push(&self, r: Rec) {
    self.log.lock().unwrap().push(r);
  }
  pub fn on_next(&self) -> impl Fn(Sym) + Send + Sync + 'static {
    let l = self.log.clone();
    let tok = sym::closure_token(&format!("cb{}:next", self.label));
    move |x: Sym| {
      let _t = &tok;
      burn();
      l.lock().unwrap().push(Rec::Next(x.plain()));
    }
  }
  pub fn on_error(&self) -> impl Fn(RxError) + Send + Sync + 'static {
    let l = self.log.clone();
    let tok = sym::closure_token(&format!("cb{}:error", self.label));
    move |e: RxError| {
      let _t = &tok;
      burn();
      let p = e.downcast_ref::<Payload>().map(|p| p.0.plain());
      l.lock().unwrap().push(Rec::Error(p));
    }
  }
  pub fn on_complete(&self) -> impl Fn() + Send + Sync + 'static {
    let l = self.log.clone();
    let tok = sym::closure_token(&format!("cb{}:complete", self.label));
    move || {
      let _t = &tok;
      burn();
      l.lock().unwrap().push(Rec::Complete);
    }
  }
  pub fn subscribe(&self, o: &Obs) -> Subscription<'static> {
    o.subscribe(self.on_next(), self.on_error(), self.on_complete())
  }
  pub fn take(&self) -> Vec<Rec> {
    self.log.lock().unwrap().clone()
  }
  pub fn len(&self) -> usize {
    self.log.lock().unwrap().len()
  }
}

// ---------------------------------------------------------------------------
// reference streams
// ---------------------------------------------------------------------------

#[derive(Clone, Debug)]
pub enum REnd {
  Complete,
  Error(Sym),
  Silent,
}

#[derive(Clone, Debug)]
pub struct RStream {
  pub items: Vec<Sym>,
  pub end: REnd,
}

impl RStream {
  pub fn short(&self) -> String {
    let mut v: Vec<String> = self
      .items
      .iter()
      .map(|p| if p.tag != 0 { format!("n{}#{}", p.v, p.tag) } else { format!("n{}", p.v) })
      .collect();
    match &self.end {
      REnd::Complete => v.push("C".into()),
      REnd::Error(p) => v.push(format!("E{}", p.v)),
      REnd::Silent => {}
    }
    v.join(",")
  }
  pub fn done(items: Vec<Sym>) -> RStream {
    RStream { items, end: REnd::Complete }
  }
}

/// compare what a subscriber recorded with the reference stream; shapes and
/// tags concretely, values as one SMT conjunction of term equalities
pub fn compare(out: &[Rec], exp: &RStream, sig: &str) -> (Option<TermId>, Option<String>) {
  let mut eqs: Vec<TermId> = vec![];
  let n = exp.items.len();
  let exp_len = n + if matches!(exp.end, REnd::Silent) { 0 } else { 1 };
  let shape = |m: &str| Some(format!("{} [{}] got [{}] expected [{}]", m, sig, short_log(out), exp.short()));
  if out.len() != exp_len {
    return (None, shape("different number of events"));
  }
  for i in 0..n {
    match &out[i] {
      Rec::Next(p) => {
        if p.tag != exp.items[i].tag {
          return (None, shape("structural label differs"));
        }
        eqs.push(sym::t_eq(p.t, exp.items[i].t));
      }
      _ => return (None, shape("terminal where an item is expected")),
    }
  }
  match (&exp.end, out.get(n)) {
    (REnd::Silent, None) => {}
    (REnd::Complete, Some(Rec::Complete)) => {}
    (REnd::Error(p), Some(Rec::Error(Some(q)))) => eqs.push(sym::t_eq(p.t, q.t)),
    (REnd::Error(_), Some(Rec::Error(None))) => return (None, shape("error payload lost its type")),
    _ => return (None, shape("wrong terminal")),
  }
  (Some(sym::t_and(eqs)), None)
}

pub fn verdict_from(out: &[Rec], exp: &RStream, sig: &str, input: &str) -> Verdict {
  let (prop, structural) = compare(out, exp, sig);
  Verdict {
    prop,
    structural,
    sample: format!("{} in=[{}] out=[{}] ref=[{}]", sig, input, short_log(out), exp.short()),
    signature: sig.to_string(),
    nontrivial: !out.is_empty() || !exp.items.is_empty(),
    detail: vec![],
  }
}

// ---------------------------------------------------------------------------
// sources
// ---------------------------------------------------------------------------

#[derive(Clone, Debug)]
pub enum Ev {
  Next(Sym),
  Error(Sym),
  Complete,
}

impl Ev {
  pub fn short(&self) -> String {
    match self {
      Ev::Next(s) => format!("n{}", s.v),
      Ev::Error(s) => format!("E{}", s.v),
      Ev::Complete => "C".into(),
    }
  }
}

pub fn emit(o: &Observer<'static, Sym>, e: &Ev) {
  burn();
  match e {
    Ev::Next(x) => o.next(x.clone()),
    Ev::Error(p) => o.error(rx_err(p)),
    Ev::Complete => o.complete(),
  }
}

/// cold source: plays the script synchronously inside subscribe, without
/// looking at the subscription state (a plain `Observable::create` loop)
pub fn cold(script: Vec<Ev>, counter: Option<Arc<Mutex<usize>>>) -> Obs {
  let tok = sym::closure_token("source:cold");
  Observable::create(move |s: Observer<'static, Sym>| {
    let _t = &tok;
    if let Some(c) = &counter {
      *c.lock().unwrap() += 1;
    }
    for e in script.iter() {
      emit(&s, e);
    }
  })
}

/// cold source whose k-th subscription plays `scripts[min(k, len-1)]`
pub fn cold_per_attempt(scripts: Vec<Vec<Ev>>, counter: Arc<Mutex<usize>>) -> Obs {
  let tok = sym::closure_token("source:attempts");
  Observable::create(move |s: Observer<'static, Sym>| {
    let _t = &tok;
    let k = {
      let mut c = counter.lock().unwrap();
      let k = *c;
      *c += 1;
      k
    };
    let script = &scripts[k.min(scripts.len() - 1)];
    for e in script.iter() {
      emit(&s, e);
    }
  })
}

/// hot source: keeps every observer it is handed; the harness drives it
#[derive(Clone)]
pub struct Hot {
  pub observers: Arc<Mutex<Vec<Observer<'static, Sym>>>>,
  /// number of subscribe calls seen, in global order stamp (for late-subscription checks)
  pub subscribed_at: Arc<Mutex<Vec<usize>>>,
  pub clock: Arc<Mutex<usize>>,
  /// events emitted synchronously inside every subscribe call (after the observer was registered)
  pub greeting: Arc<Mutex<Vec<Ev>>>,
}

impl Hot {
  pub fn new(clock: Arc<Mutex<usize>>) -> Hot {
    Hot { observers: Arc::new(Mutex::new(vec![])), subscribed_at: Arc::new(Mutex::new(vec![])), clock, greeting: Arc::new(Mutex::new(vec![])) }
  }
  pub fn observable(&self) -> Obs {
    let obs = self.observers.clone();
    let at = self.subscribed_at.clone();
    let clock = self.clock.clone();
    let greeting = self.greeting.clone();
    let tok = sym::closure_token("source:hot");
    Observable::create(move |s: Observer<'static, Sym>| {
      let _t = &tok;
      burn();
      obs.lock().unwrap().push(s.clone());
      at.lock().unwrap().push(*clock.lock().unwrap());
      let g: Vec<Ev> = greeting.lock().unwrap().clone();
      for e in g.iter() {
        emit(&s, e);
      }
    })
  }
  pub fn n_subscribed(&self) -> usize {
    self.observers.lock().unwrap().len()
  }
  /// emit to every observer handed out so far (no subscription check: the
  /// source may be ill-behaved)
  pub fn emit(&self, e: &Ev) {
    let v: Vec<Observer<'static, Sym>> = self.observers.lock().unwrap().clone();
    for o in v.iter() {
      emit(o, e);
    }
  }
  /// probes: is_subscribed() of every observer handed out
  pub fn probes(&self) -> Vec<bool> {
    let v: Vec<Observer<'static, Sym>> = self.observers.lock().unwrap().clone();
    v.iter().map(|o| o.is_subscribed()).collect()
  }
  pub fn clear(&self) {
    self.observers.lock().unwrap().clear();
  }
}

pub fn tick(clock: &Arc<Mutex<usize>>) -> usize {
  let mut c = clock.lock().unwrap();
  *c += 1;
  *c
}

/// script of symbolic events: length, kinds and values are solver variables.
/// `well_formed`: items then at most one terminal at the end;
/// otherwise any sequence over {next, error, complete}.
pub fn sym_script(pfx: &str, max_len: usize, well_formed: bool) -> Vec<Ev> {
  let mut v = vec![];
  if well_formed {
    let n = sym::choose(&format!("{}.len", pfx), max_len + 1);
    for i in 0..n {
      v.push(Ev::Next(Sym::var(&format!("{}.x{}", pfx, i), i as i64 + 1)));
    }
    match sym::choose(&format!("{}.end", pfx), 3) {
      0 => v.push(Ev::Complete),
      1 => v.push(Ev::Error(Sym::var(&format!("{}.err", pfx), 77))),
      _ => {}
    }
  } else {
    let n = sym::choose(&format!("{}.len", pfx), max_len + 1);
    for i in 0..n {
      match sym::choose(&format!("{}.k{}", pfx, i), 3) {
        0 => v.push(Ev::Next(Sym::var(&format!("{}.x{}", pfx, i), i as i64 + 1))),
        1 => v.push(Ev::Complete),
        _ => v.push(Ev::Error(Sym::var(&format!("{}.e{}", pfx, i), 70 + i as i64))),
      }
    }
  }
  v
}

pub fn script_short(s: &[Ev]) -> String {
  s.iter().map(|e| e.short()).collect::<Vec<_>>().join(",")
}

/// the stream a well-behaved observer sees from a script: items up to and
/// including the first terminal
pub fn stream_of(script: &[Ev]) -> RStream {
  let mut items = vec![];
  for e in script {
    match e {
      Ev::Next(x) => items.push(x.clone()),
      Ev::Error(p) => return RStream { items, end: REnd::Error(p.clone()) },
      Ev::Complete => return RStream { items, end: REnd::Complete },
    }
  }
  RStream { items, end: REnd::Silent }
}
