//! engine S: concolic symbolic execution of the real crate, z3 deciding
//! every path.  See DESIGN.md 2.2.
//!
//!   engine_s check <prop> --tier quick|thorough --seed N --shard i/n --out f.json
//!   engine_s replay <violation.json>      (exit 1 = reproduced, 0 = not)
//!   engine_s list <prop> --tier ..

#![allow(dead_code)]
mod explore;
mod hlib;
mod ops;
mod props;
mod rtx;
mod smt;
mod sym;
mod topo;

use explore::{Budget, Explorer};
use props::Tier;
use serde_json::{json, Value};
use std::collections::HashMap;
use std::time::Instant;

fn arg(args: &[String], key: &str) -> Option<String> {
  args.iter().position(|a| a == key).and_then(|i| args.get(i + 1).cloned())
}

fn main() {
  if std::env::var("VERIF_PANIC").is_err() {
    std::panic::set_hook(Box::new(|_| {}));
  }
  let args: Vec<String> = std::env::args().collect();
  if args.len() < 3 {
    eprintln!("usage: engine_s check|replay|list ...");
    std::process::exit(2);
  }
  match args[1].as_str() {
    "check" | "list" => {
      let prop = args[2].clone();
      let tier = match arg(&args, "--tier").as_deref() {
        Some("thorough") => Tier::Thorough,
        _ => Tier::Quick,
      };
      let seed: u64 = arg(&args, "--seed").and_then(|s| s.parse().ok()).unwrap_or(0);
      let (si, sn) = arg(&args, "--shard")
        .and_then(|s| {
          let mut p = s.split('/');
          Some((p.next()?.parse::<usize>().ok()?, p.next()?.parse::<usize>().ok()?))
        })
        .unwrap_or((0, 1));
      let plan = match props::plan(&prop, tier, seed) {
        Some(p) => p,
        None => {
          eprintln!("no plan for {}", prop);
          std::process::exit(2);
        }
      };
      if args[1] == "list" {
        for h in plan.harnesses.iter() {
          println!("{}", h.name());
        }
        return;
      }
      let t0 = Instant::now();
      // two hasher seeds: both iteration orders of the 2-entry maps
      let mut ex = Explorer::new(vec![0xcbf29ce484222325, 0x9e3779b97f4a7c15]);
      let budget = Budget { max_paths: plan.max_paths, max_pc: plan.max_pc };
      let mut n_h = 0;
      let deadline: f64 = arg(&args, "--deadline").and_then(|s| s.parse().ok()).unwrap_or(1e9);
      let mut skipped = 0;
      if deadline < 1e8 {
        // hard stop inside a harness a little after the soft one between harnesses
        ex.deadline = Some(t0 + std::time::Duration::from_secs_f64(deadline * 1.1));
      }
      let only = arg(&args, "--only");
      for (i, h) in plan.harnesses.iter().enumerate() {
        if i % sn != si {
          continue;
        }
        if let Some(o) = &only {
          if !h.name().contains(o.as_str()) {
            continue;
          }
        }
        if t0.elapsed().as_secs_f64() > deadline {
          skipped += 1;
          ex.stats.exhaustive = false;
          continue;
        }
        n_h += 1;
        ex.explore(h.clone(), &budget);
      }
      let st = &ex.stats;
      let out = json!({
        "property": prop,
        "shard": format!("{}/{}", si, sn),
        "harnesses": n_h,
        "harnesses_skipped_deadline": skipped,
        "executions": st.executions,
        "paths": st.paths,
        "nontrivial": st.nontrivial,
        "alternatives_sat": st.alternatives_sat,
        "alternatives_unsat": st.alternatives_unsat,
        "prop_queries": st.prop_queries,
        "prop_unsat": st.prop_unsat,
        "prop_sat": st.prop_sat,
        "divergent": st.divergent,
        "abnormal": st.abnormal,
        "pending": st.pending,
        "unknown": st.unknown,
        "max_pc": st.max_pc,
        "exhaustive": st.exhaustive,
        "samples": st.samples,
        "queries": ex.solver.queries,
        "q_sat": ex.solver.n_sat,
        "q_unsat": ex.solver.n_unsat,
        "q_unknown": ex.solver.n_unknown,
        "solver_s": ex.solver.solver_s,
        "solver": ex.solver.bin,
        "bounds": plan.bounds,
        "wall_s": t0.elapsed().as_secs_f64(),
        "errors": ex.errors.iter().take(10).collect::<Vec<_>>(),
        "violations": ex.violations.iter().map(|v| v.to_json()).collect::<Vec<_>>(),
        "sites": sites(),
      });
      let s = serde_json::to_string_pretty(&out).unwrap();
      match arg(&args, "--out") {
        Some(p) => std::fs::write(p, s).unwrap(),
        None => println!("{}", s),
      }
      if !ex.errors.is_empty() {
        std::process::exit(2);
      }
    }
    "replay" => {
      let txt = std::fs::read_to_string(&args[2]).expect("read replay file");
      let v: Value = serde_json::from_str(&txt).expect("json");
      let name = v["harness"].as_str().unwrap();
      let model: HashMap<String, i64> =
        v["model"].as_object().unwrap().iter().map(|(k, x)| (k.clone(), x.as_i64().unwrap())).collect();
      let hash_seed = v["hash_seed"].as_u64().unwrap_or(0xcbf29ce484222325);
      let h = props::by_name(name).expect("unknown harness");
      let out = explore::execute(&h, &model, hash_seed);
      let mut reproduced = false;
      let mut why = String::new();
      match (&out.outcome, &out.verdict) {
        (rtx::Outcome::Finished, Some(vd)) => {
          println!("case: {}", vd.sample);
          if let Some(m) = &vd.structural {
            reproduced = true;
            why = m.clone();
          } else if let Some(p) = vd.prop {
            if sym::eval(&out.ctx.terms, &out.ctx.vars, p) == 0 {
              reproduced = true;
              why = "recorded values differ from the reference".into();
            }
          }
        }
        (o, _) => {
          println!("outcome: {:?} notes={:?}", o, out.ctx.notes);
          if let Some((sig, msg)) = h.judge_abnormal(o, &out.ctx.notes) {
            reproduced = true;
            why = format!("{} {}", sig, msg);
          }
        }
      }
      println!(
        "replay on {} build: {}{}",
        if cfg!(feature = "instrumented") { "instrumented" } else { "pristine" },
        if reproduced { "REPRODUCED " } else { "not reproduced" },
        why
      );
      std::process::exit(if reproduced { 1 } else { 0 });
    }
    _ => {
      eprintln!("unknown command");
      std::process::exit(2);
    }
  }
}

#[cfg(feature = "instrumented")]
fn sites() -> Vec<String> {
  another_rxrust::vf::rt::sites()
}
#[cfg(not(feature = "instrumented"))]
fn sites() -> Vec<String> {
  vec![]
}
