//! Catalogue of single-source operators: for each, the real operator of the
//! crate (brought back to an `Observable<Sym>` by a fixed adapter when it
//! changes the item type) and its reference function on streams, written
//! from the ReactiveX definitions quoted in implementation_status.md with the
//! conventions pinned by the crate's own asserted tests (1-based element_at,
//! contains() answers false on error).

use crate::hlib::*;
use crate::sym::{self, Sym};
use another_rxrust::prelude::*;
use std::sync::{Arc, Mutex};

#[derive(Clone, Copy, Debug, PartialEq, Eq, Hash)]
pub enum OpKind {
  Map,
  Filter,
  Take,
  Skip,
  TakeLast,
  SkipLast,
  TakeWhile,
  SkipWhile,
  First,
  Last,
  ElementAt,
  DistinctUntilChanged,
  Scan,
  Reduce,
  Count,
  Sum,
  SumAndCount,
  Min,
  Max,
  All,
  Contains,
  DefaultIfEmpty,
  IgnoreElements,
  StartWith,
  BufferWithCount,
  WindowWithCount,
  GroupBy,
  Materialize,
  Dematerialize,
  MaterializeRoundTrip,
  Tap,
  MapToAny,
  ObserveOnDefault,
  SubscribeOnDefault,
  Timestamp,
  Delay,
}

pub const ALL_OPS: &[OpKind] = &[
  OpKind::Map,
  OpKind::Filter,
  OpKind::Take,
  OpKind::Skip,
  OpKind::TakeLast,
  OpKind::SkipLast,
  OpKind::TakeWhile,
  OpKind::SkipWhile,
  OpKind::First,
  OpKind::Last,
  OpKind::ElementAt,
  OpKind::DistinctUntilChanged,
  OpKind::Scan,
  OpKind::Reduce,
  OpKind::Count,
  OpKind::Sum,
  OpKind::SumAndCount,
  OpKind::Min,
  OpKind::Max,
  OpKind::All,
  OpKind::Contains,
  OpKind::DefaultIfEmpty,
  OpKind::IgnoreElements,
  OpKind::StartWith,
  OpKind::BufferWithCount,
  OpKind::WindowWithCount,
  OpKind::GroupBy,
  OpKind::Materialize,
  OpKind::Dematerialize,
  OpKind::MaterializeRoundTrip,
  OpKind::Tap,
  OpKind::MapToAny,
  OpKind::ObserveOnDefault,
  OpKind::SubscribeOnDefault,
  OpKind::Timestamp,
  OpKind::Delay,
];

impl OpKind {
  pub fn name(&self) -> &'static str {
    match self {
      OpKind::Map => "map",
      OpKind::Filter => "filter",
      OpKind::Take => "take",
      OpKind::Skip => "skip",
      OpKind::TakeLast => "take_last",
      OpKind::SkipLast => "skip_last",
      OpKind::TakeWhile => "take_while",
      OpKind::SkipWhile => "skip_while",
      OpKind::First => "first",
      OpKind::Last => "last",
      OpKind::ElementAt => "element_at",
      OpKind::DistinctUntilChanged => "distinct_until_changed",
      OpKind::Scan => "scan",
      OpKind::Reduce => "reduce",
      OpKind::Count => "count",
      OpKind::Sum => "sum",
      OpKind::SumAndCount => "sum_and_count",
      OpKind::Min => "min",
      OpKind::Max => "max",
      OpKind::All => "all",
      OpKind::Contains => "contains",
      OpKind::DefaultIfEmpty => "default_if_empty",
      OpKind::IgnoreElements => "ignore_elements",
      OpKind::StartWith => "start_with",
      OpKind::BufferWithCount => "buffer_with_count",
      OpKind::WindowWithCount => "window_with_count",
      OpKind::GroupBy => "group_by",
      OpKind::Materialize => "materialize",
      OpKind::Dematerialize => "dematerialize",
      OpKind::MaterializeRoundTrip => "materialize_dematerialize",
      OpKind::Tap => "tap",
      OpKind::MapToAny => "map_to_any",
      OpKind::ObserveOnDefault => "observe_on_default",
      OpKind::SubscribeOnDefault => "subscribe_on_default",
      OpKind::Timestamp => "timestamp",
      OpKind::Delay => "delay",
    }
  }
  pub fn from_name(s: &str) -> Option<OpKind> {
    ALL_OPS.iter().copied().find(|k| k.name() == s)
  }
  /// operators that end the subscription early on their own
  pub fn terminates_early(&self) -> bool {
    matches!(
      self,
      OpKind::Take | OpKind::First | OpKind::ElementAt | OpKind::TakeWhile | OpKind::All | OpKind::Contains | OpKind::Dematerialize
    )
  }
}

type RealFn = Box<dyn Fn(Obs) -> Obs + Send + Sync>;
type RefFn = Box<dyn Fn(RStream) -> RStream + Send + Sync>;

pub struct OpInst {
  pub kind: OpKind,
  pub label: String,
  pub real: RealFn,
  pub refr: RefFn,
  /// side-effect recorder of `tap`: must see exactly the operator's input
  pub side: Option<Recorder>,
}

fn b2s(b: bool) -> Sym {
  Sym::konst(b as i64)
}

/// instantiate an operator; its parameters become solver variables named
/// under `pfx`
pub fn instantiate(kind: OpKind, pfx: &str) -> OpInst {
  let tok = sym::closure_token(&format!("op:{}", kind.name()));
  let mut side = None;
  let mut label = kind.name().to_string();
  let (real, refr): (RealFn, RefFn) = match kind {
    OpKind::Map => {
      let c = Sym::var(&format!("{}.c", pfx), 10);
      let c2 = c.clone();
      (
        Box::new(move |o: Obs| {
          let c = c.clone();
          let tok = tok.clone();
          o.map(move |x: Sym| {
            let _t = &tok;
            x.add(&c)
          })
        }),
        Box::new(move |s: RStream| RStream { items: s.items.iter().map(|x| x.add(&c2)).collect(), end: s.end }),
      )
    }
    OpKind::Filter => {
      let c = Sym::var(&format!("{}.c", pfx), 1);
      let c2 = c.clone();
      (
        Box::new(move |o: Obs| {
          let c = c.clone();
          let tok = tok.clone();
          o.filter(move |x: Sym| {
            let _t = &tok;
            c.sym_lt(&x, "pred")
          })
        }),
        Box::new(move |s: RStream| RStream {
          items: s.items.into_iter().filter(|x| c2.sym_lt(x, "ref")).collect(),
          end: s.end,
        }),
      )
    }
    OpKind::Take => {
      let n = sym::choose(&format!("{}.n", pfx), 6);
      label = format!("take({})", n);
      (
        Box::new(move |o: Obs| o.take(n)),
        Box::new(move |s: RStream| {
          if n == 0 {
            RStream::done(vec![])
          } else if s.items.len() >= n {
            RStream::done(s.items[..n].to_vec())
          } else {
            s
          }
        }),
      )
    }
    OpKind::Skip => {
      let n = sym::choose(&format!("{}.n", pfx), 6);
      label = format!("skip({})", n);
      (
        Box::new(move |o: Obs| o.skip(n)),
        Box::new(move |s: RStream| RStream { items: s.items.into_iter().skip(n).collect(), end: s.end }),
      )
    }
    OpKind::TakeLast => {
      let n = sym::choose(&format!("{}.n", pfx), 6);
      label = format!("take_last({})", n);
      (
        Box::new(move |o: Obs| o.take_last(n)),
        Box::new(move |s: RStream| match s.end {
          REnd::Complete => {
            let k = s.items.len().saturating_sub(n);
            RStream::done(s.items[k..].to_vec())
          }
          e => RStream { items: vec![], end: e },
        }),
      )
    }
    OpKind::SkipLast => {
      let n = sym::choose(&format!("{}.n", pfx), 6);
      label = format!("skip_last({})", n);
      (
        Box::new(move |o: Obs| o.skip_last(n)),
        Box::new(move |s: RStream| {
          let k = s.items.len().saturating_sub(n);
          RStream { items: s.items[..k].to_vec(), end: s.end }
        }),
      )
    }
    OpKind::TakeWhile => {
      let c = Sym::var(&format!("{}.c", pfx), 1);
      let c2 = c.clone();
      (
        Box::new(move |o: Obs| {
          let c = c.clone();
          let tok = tok.clone();
          o.take_while(move |x: Sym| {
            let _t = &tok;
            x.sym_lt(&c, "pred")
          })
        }),
        Box::new(move |s: RStream| {
          let mut items = vec![];
          for x in s.items.iter() {
            if x.sym_lt(&c2, "ref") {
              items.push(x.clone());
            } else {
              return RStream::done(items);
            }
          }
          RStream { items, end: s.end }
        }),
      )
    }
    OpKind::SkipWhile => {
      let c = Sym::var(&format!("{}.c", pfx), 1);
      let c2 = c.clone();
      (
        Box::new(move |o: Obs| {
          let c = c.clone();
          let tok = tok.clone();
          o.skip_while(move |x: Sym| {
            let _t = &tok;
            x.sym_lt(&c, "pred")
          })
        }),
        Box::new(move |s: RStream| {
          let mut items = vec![];
          let mut open = false;
          for x in s.items.iter() {
            if !open && !x.sym_lt(&c2, "ref") {
              open = true;
            }
            if open {
              items.push(x.clone());
            }
          }
          RStream { items, end: s.end }
        }),
      )
    }
    OpKind::First => (
      Box::new(move |o: Obs| o.first()),
      Box::new(move |s: RStream| {
        if let Some(x) = s.items.first() {
          RStream::done(vec![x.clone()])
        } else {
          s
        }
      }),
    ),
    OpKind::Last => (
      Box::new(move |o: Obs| o.last()),
      Box::new(move |s: RStream| match s.end {
        REnd::Complete => RStream::done(s.items.last().cloned().into_iter().collect()),
        e => RStream { items: vec![], end: e },
      }),
    ),
    OpKind::ElementAt => {
      // 1-based (pinned by element_at::test::basic)
      let n = sym::choose(&format!("{}.n", pfx), 5) + 1;
      label = format!("element_at({})", n);
      (
        Box::new(move |o: Obs| o.element_at(n)),
        Box::new(move |s: RStream| {
          if s.items.len() >= n {
            RStream::done(vec![s.items[n - 1].clone()])
          } else {
            RStream { items: vec![], end: s.end }
          }
        }),
      )
    }
    OpKind::DistinctUntilChanged => (
      Box::new(move |o: Obs| o.distinct_until_changed()),
      Box::new(move |s: RStream| {
        let mut items: Vec<Sym> = vec![];
        for x in s.items.iter() {
          let dup = match items.last() {
            Some(l) => l.sym_eq(x, "ref"),
            None => false,
          };
          if !dup {
            items.push(x.clone());
          }
        }
        RStream { items, end: s.end }
      }),
    ),
    OpKind::Scan => (
      Box::new(move |o: Obs| {
        let tok = tok.clone();
        o.scan(move |(a, b): (Sym, Sym)| {
          let _t = &tok;
          // not commutative (2a + b): the argument order is part of the definition
          a.add(&a).add(&b)
        })
      }),
      Box::new(move |s: RStream| {
        let mut items: Vec<Sym> = vec![];
        for x in s.items.iter() {
          let v = match items.last() {
            Some(l) => l.add(l).add(x),
            None => x.clone(),
          };
          items.push(v);
        }
        RStream { items, end: s.end }
      }),
    ),
    OpKind::Reduce | OpKind::Sum => {
      let is_sum = kind == OpKind::Sum;
      (
        Box::new(move |o: Obs| {
          if is_sum {
            o.sum()
          } else {
            let tok = tok.clone();
            o.reduce(move |(a, b): (Sym, Sym)| {
              let _t = &tok;
              a.add(&a).add(&b)
            })
          }
        }),
        Box::new(move |s: RStream| match s.end {
          REnd::Complete => {
            let mut acc: Option<Sym> = None;
            for x in s.items.iter() {
              acc = Some(match acc {
                Some(a) if !is_sum => a.add(&a).add(x),
                Some(a) => a.add(x),
                None => x.clone(),
              });
            }
            RStream::done(acc.into_iter().collect())
          }
          e => RStream { items: vec![], end: e },
        }),
      )
    }
    OpKind::Count => (
      Box::new(move |o: Obs| o.count().map(|n: usize| Sym::konst(n as i64))),
      Box::new(move |s: RStream| match s.end {
        REnd::Complete => RStream::done(vec![Sym::konst(s.items.len() as i64)]),
        e => RStream { items: vec![], end: e },
      }),
    ),
    OpKind::SumAndCount => (
      // adapter: (sum, n) -> sum labelled with n
      Box::new(move |o: Obs| o.sum_and_count().map(|(s, n): (Sym, usize)| s.with_tag(n as i32))),
      Box::new(move |s: RStream| match s.end {
        REnd::Complete => {
          let mut acc: Option<Sym> = None;
          for x in s.items.iter() {
            acc = Some(match acc {
              Some(a) => a.add(x),
              None => x.clone(),
            });
          }
          let n = s.items.len() as i32;
          RStream::done(acc.map(|a| a.with_tag(n)).into_iter().collect())
        }
        e => RStream { items: vec![], end: e },
      }),
    ),
    OpKind::Min | OpKind::Max => {
      let is_min = kind == OpKind::Min;
      (
        Box::new(move |o: Obs| if is_min { o.min() } else { o.max() }),
        Box::new(move |s: RStream| match s.end {
          REnd::Complete => {
            let mut acc: Option<Sym> = None;
            for x in s.items.iter() {
              acc = Some(match acc {
                Some(a) => {
                  let better = if is_min { x.sym_lt(&a, "ref") } else { a.sym_lt(x, "ref") };
                  if better {
                    x.clone()
                  } else {
                    a
                  }
                }
                None => x.clone(),
              });
            }
            RStream::done(acc.into_iter().collect())
          }
          e => RStream { items: vec![], end: e },
        }),
      )
    }
    OpKind::All => {
      let c = Sym::var(&format!("{}.c", pfx), 1);
      let c2 = c.clone();
      (
        Box::new(move |o: Obs| {
          let c = c.clone();
          let tok = tok.clone();
          o.all(move |x: Sym| {
            let _t = &tok;
            c.sym_lt(&x, "pred")
          })
          .map(b2s)
        }),
        Box::new(move |s: RStream| {
          for x in s.items.iter() {
            if !c2.sym_lt(x, "ref") {
              return RStream::done(vec![b2s(false)]);
            }
          }
          match s.end {
            REnd::Complete => RStream::done(vec![b2s(true)]),
            e => RStream { items: vec![], end: e },
          }
        }),
      )
    }
    OpKind::Contains => {
      let c = Sym::var(&format!("{}.c", pfx), 2);
      let c2 = c.clone();
      (
        Box::new(move |o: Obs| o.contains(c.clone()).map(b2s)),
        Box::new(move |s: RStream| {
          for x in s.items.iter() {
            if x.sym_eq(&c2, "ref") {
              return RStream::done(vec![b2s(true)]);
            }
          }
          match s.end {
            // contains::test::error pins: an error answers false and completes
            REnd::Complete | REnd::Error(_) => RStream::done(vec![b2s(false)]),
            REnd::Silent => RStream { items: vec![], end: REnd::Silent },
          }
        }),
      )
    }
    OpKind::DefaultIfEmpty => {
      let d = Sym::var(&format!("{}.d", pfx), 55);
      let d2 = d.clone();
      (
        Box::new(move |o: Obs| o.default_if_empty(d.clone())),
        Box::new(move |s: RStream| match (&s.end, s.items.is_empty()) {
          (REnd::Complete, true) => RStream::done(vec![d2.clone()]),
          _ => s,
        }),
      )
    }
    OpKind::IgnoreElements => (
      Box::new(move |o: Obs| o.ignore_elements()),
      Box::new(move |s: RStream| RStream { items: vec![], end: s.end }),
    ),
    OpKind::StartWith => {
      let k = sym::choose(&format!("{}.k", pfx), 3);
      label = format!("start_with({})", k);
      let prefix: Vec<Sym> = (0..k).map(|i| Sym::var(&format!("{}.p{}", pfx, i), 90 + i as i64)).collect();
      let p2 = prefix.clone();
      (
        Box::new(move |o: Obs| o.start_with(prefix.clone().into_iter())),
        Box::new(move |s: RStream| {
          let mut items = p2.clone();
          items.extend(s.items);
          RStream { items, end: s.end }
        }),
      )
    }
    OpKind::BufferWithCount => {
      let n = sym::choose(&format!("{}.n", pfx), 4) + 1;
      label = format!("buffer_with_count({})", n);
      (
        // adapter: every bundle is flattened, items labelled with the
        // bundle's ordinal and its length (so bundle boundaries are compared)
        Box::new(move |o: Obs| { let op = o.buffer_with_count(n); observables::defer(move || {
          let ctr = Arc::new(Mutex::new(0i32));
          op.flat_map(move |v: Vec<Sym>| {
            let b = {
              let mut c = ctr.lock().unwrap();
              *c += 1;
              *c
            };
            let l = v.len() as i32;
            observables::from_iter(v.into_iter().map(move |x| x.with_tag(b * 10 + l)))
          })
        }) }),
        Box::new(move |s: RStream| {
          let mut items = vec![];
          let full = s.items.len() / n;
          let rest = s.items.len() % n;
          for (i, x) in s.items.iter().enumerate() {
            let b = (i / n) as i32 + 1;
            if i / n < full {
              items.push(x.clone().with_tag(b * 10 + n as i32));
            } else if matches!(s.end, REnd::Complete) {
              items.push(x.clone().with_tag(b * 10 + rest as i32));
            }
          }
          RStream { items, end: s.end }
        }),
      )
    }
    OpKind::WindowWithCount => {
      let n = sym::choose(&format!("{}.n", pfx), 4) + 1;
      label = format!("window_with_count({})", n);
      (
        Box::new(move |o: Obs| { let op = o.window_with_count(n); observables::defer(move || {
          let ctr = Arc::new(Mutex::new(0i32));
          op.flat_map(move |w: Obs| {
            let b = {
              let mut c = ctr.lock().unwrap();
              *c += 1;
              *c
            };
            w.map(move |x: Sym| x.with_tag(b))
          })
        }) }),
        Box::new(move |s: RStream| RStream {
          items: s.items.iter().enumerate().map(|(i, x)| x.clone().with_tag((i / n) as i32 + 1)).collect(),
          end: s.end,
        }),
      )
    }
    OpKind::GroupBy => {
      let c = Sym::var(&format!("{}.c", pfx), 1);
      let c2 = c.clone();
      (
        Box::new(move |o: Obs| {
          let c = c.clone();
          let op = o.group_by(move |x: Sym| c.sym_lt(&x, "key"));
          observables::defer(move || {
          let ctr = Arc::new(Mutex::new(0i32));
          op.flat_map(move |g: Obs| {
            let b = {
              let mut c = ctr.lock().unwrap();
              *c += 1;
              *c
            };
            g.map(move |x: Sym| x.with_tag(b))
          })
          })
        }),
        Box::new(move |s: RStream| {
          let mut order: Vec<bool> = vec![];
          let mut items = vec![];
          for x in s.items.iter() {
            let k = c2.sym_lt(x, "ref");
            let ix = match order.iter().position(|y| *y == k) {
              Some(i) => i,
              None => {
                order.push(k);
                order.len() - 1
              }
            };
            items.push(x.clone().with_tag(ix as i32 + 1));
          }
          RStream { items, end: s.end }
        }),
      )
    }
    OpKind::Materialize => (
      Box::new(move |o: Obs| {
        o.materialize().map(|m: Material<Sym>| match m {
          Material::Next(x) => x.with_tag(1),
          Material::Error(e) => match e.downcast_ref::<Payload>() {
            Some(p) => p.0.clone().with_tag(2),
            None => Sym::konst(-1).with_tag(9),
          },
          Material::Complete => Sym::konst(0).with_tag(3),
        })
      }),
      Box::new(move |s: RStream| {
        let mut items: Vec<Sym> = s.items.iter().map(|x| x.clone().with_tag(1)).collect();
        match s.end {
          REnd::Complete => {
            items.push(Sym::konst(0).with_tag(3));
            RStream::done(items)
          }
          REnd::Error(p) => {
            items.push(p.with_tag(2));
            RStream::done(items)
          }
          REnd::Silent => RStream { items, end: REnd::Silent },
        }
      }),
    ),
    OpKind::Dematerialize => {
      // input adapter: x -> Next(x) while x < c, the first x >= c becomes a
      // materialized terminal (kind chosen)
      let c = Sym::var(&format!("{}.c", pfx), 3);
      let c2 = c.clone();
      let term_kind = sym::choose(&format!("{}.t", pfx), 2);
      label = format!("dematerialize({})", if term_kind == 0 { "Complete" } else { "Error" });
      (
        Box::new(move |o: Obs| {
          let c = c.clone();
          o.map(move |x: Sym| {
            if x.sym_lt(&c, "adapter") {
              Material::Next(x)
            } else if term_kind == 0 {
              Material::Complete
            } else {
              Material::Error(rx_err(&x))
            }
          })
          .dematerialize()
        }),
        Box::new(move |s: RStream| {
          let mut items = vec![];
          for x in s.items.iter() {
            if x.sym_lt(&c2, "ref") {
              items.push(x.clone());
            } else if term_kind == 0 {
              return RStream::done(items);
            } else {
              return RStream { items, end: REnd::Error(x.clone()) };
            }
          }
          RStream { items, end: s.end }
        }),
      )
    }
    OpKind::MaterializeRoundTrip => (
      Box::new(move |o: Obs| o.materialize().dematerialize()),
      Box::new(move |s: RStream| s),
    ),
    OpKind::Tap => {
      let r = Recorder::new();
      side = Some(r.clone());
      (
        Box::new(move |o: Obs| o.tap(r.on_next(), r.on_error(), r.on_complete())),
        Box::new(move |s: RStream| s),
      )
    }
    OpKind::MapToAny => (
      Box::new(move |o: Obs| {
        o.map_to_any().map(|a| match a.downcast_ref::<Sym>() {
          Some(s) => s.clone(),
          None => Sym::konst(-1).with_tag(9),
        })
      }),
      Box::new(move |s: RStream| s),
    ),
    // scheduler operators over the synchronous default scheduler, and the time-stamping /
    // delaying operators under the virtual clock: all are the identity on the event sequence
    OpKind::ObserveOnDefault => (
      Box::new(move |o: Obs| o.observe_on(schedulers::default_scheduler())),
      Box::new(move |s: RStream| s),
    ),
    OpKind::SubscribeOnDefault => (
      Box::new(move |o: Obs| o.subscribe_on(schedulers::default_scheduler())),
      Box::new(move |s: RStream| s),
    ),
    OpKind::Timestamp => (
      Box::new(move |o: Obs| o.timestamp().map(|(_t, x): (std::time::SystemTime, Sym)| x)),
      Box::new(move |s: RStream| s),
    ),
    OpKind::Delay => (
      Box::new(move |o: Obs| o.delay(std::time::Duration::from_millis(1))),
      Box::new(move |s: RStream| s),
    ),
  };
  OpInst { kind, label, real, refr, side }
}
