//! Pipeline topologies over several sources: the crate's multi-input and
//! resubscribing operators, optionally nested with one single-source operator
//! above or below.  Used by C01/C03/C04/C05/C06/C14/C17.

use crate::hlib::*;
use crate::ops::{instantiate, OpInst, OpKind, ALL_OPS};
use crate::sym::{self, Sym};
use another_rxrust::prelude::*;
use std::sync::{Arc, Mutex};

#[derive(Clone, Copy, Debug, PartialEq, Eq, Hash)]
pub enum Comb {
  Merge,
  Concat,
  Zip,
  CombineLatest,
  Amb,
  TakeUntil,
  SkipUntil,
  Sample,
  SequenceEqual,
  SwitchOnNext,
  FlatMap,
  Retry,
  RetryWhen,
  OnErrorResumeNext,
  Defer,
  ReadySetGo,
  ViaSubject,
  ViaBehavior,
  ViaReplay,
  ViaAsync,
  PublishConnect,
  RefCount,
  Replay,
}

pub const ALL_COMBS: &[Comb] = &[
  Comb::Merge,
  Comb::Concat,
  Comb::Zip,
  Comb::CombineLatest,
  Comb::Amb,
  Comb::TakeUntil,
  Comb::SkipUntil,
  Comb::Sample,
  Comb::SequenceEqual,
  Comb::SwitchOnNext,
  Comb::FlatMap,
  Comb::Retry,
  Comb::RetryWhen,
  Comb::OnErrorResumeNext,
  Comb::Defer,
  Comb::ReadySetGo,
  Comb::ViaSubject,
  Comb::ViaBehavior,
  Comb::ViaReplay,
  Comb::ViaAsync,
  Comb::PublishConnect,
  Comb::RefCount,
  Comb::Replay,
];

impl Comb {
  pub fn name(&self) -> &'static str {
    match self {
      Comb::Merge => "merge",
      Comb::Concat => "concat",
      Comb::Zip => "zip",
      Comb::CombineLatest => "combine_latest",
      Comb::Amb => "amb",
      Comb::TakeUntil => "take_until",
      Comb::SkipUntil => "skip_until",
      Comb::Sample => "sample",
      Comb::SequenceEqual => "sequence_equal",
      Comb::SwitchOnNext => "switch_on_next",
      Comb::FlatMap => "flat_map",
      Comb::Retry => "retry",
      Comb::RetryWhen => "retry_when",
      Comb::OnErrorResumeNext => "on_error_resume_next",
      Comb::Defer => "defer",
      Comb::ReadySetGo => "ready_set_go",
      Comb::ViaSubject => "via_subject",
      Comb::ViaBehavior => "via_behavior_subject",
      Comb::ViaReplay => "via_replay_subject",
      Comb::ViaAsync => "via_async_subject",
      Comb::PublishConnect => "publish_connect",
      Comb::RefCount => "ref_count",
      Comb::Replay => "replay",
    }
  }
  pub fn from_name(s: &str) -> Option<Comb> {
    ALL_COMBS.iter().copied().find(|c| c.name() == s)
  }
  /// number of harness sources the combinator is built over
  pub fn n_sources(&self) -> usize {
    match self {
      Comb::Merge | Comb::Concat | Comb::Zip | Comb::CombineLatest | Comb::Amb | Comb::SequenceEqual => 2,
      Comb::TakeUntil | Comb::SkipUntil | Comb::Sample | Comb::SwitchOnNext | Comb::OnErrorResumeNext => 2,
      Comb::FlatMap => 3,
      _ => 1,
    }
  }
}

/// what must be kept alive / can be driven besides the observable
pub struct Extra {
  pub keep: Vec<Box<dyn std::any::Any + Send + Sync>>,
  pub connect: Option<Box<dyn Fn() -> Subscription<'static> + Send + Sync>>,
}

/// build the real combinator over the given source observables
pub fn build_comb(c: Comb, srcs: &[Obs], pfx: &str, extra: &mut Extra) -> Obs {
  let s0 = srcs[0].clone();
  let rest: Vec<Obs> = srcs[1..].to_vec();
  match c {
    Comb::Merge => s0.merge(&rest),
    Comb::Concat => s0.concat(&rest),
    Comb::Zip => {
      // adapter: tuples are flattened, items labelled with the tuple ordinal.  The zip operator itself
      // is built once (its state must be per subscription by its own means); only the adapter's
      // ordinal counter lives inside `defer`
      let z = s0.zip(&rest);
      observables::defer(move || {
        let ctr = Arc::new(Mutex::new(0i32));
        z.flat_map(move |v: Vec<Sym>| {
          let b = {
            let mut c = ctr.lock().unwrap();
            *c += 1;
            *c
          };
          observables::from_iter(v.into_iter().map(move |x| x.with_tag(b)))
        })
      })
    }
    Comb::CombineLatest => s0.combine_latest(&rest, |v: Vec<Sym>| {
      let mut acc = v[0].clone();
      for x in v[1..].iter() {
        acc = acc.add(x);
      }
      acc
    }),
    Comb::Amb => s0.amb(&rest),
    Comb::TakeUntil => s0.take_until(rest[0].clone()),
    Comb::SkipUntil => s0.skip_until(rest[0].clone()),
    Comb::Sample => s0.sample(rest[0].clone()),
    Comb::SequenceEqual => s0.sequence_equal(&rest).map(|b: bool| Sym::konst(b as i64)),
    Comb::SwitchOnNext => s0.switch_on_next(rest[0].clone()),
    Comb::FlatMap => {
      // k-th outer item selects inner source 1 + (k mod 2); the selector's counter must be per
      // subscription, so the whole stage sits inside `defer` (flat_map keeps no state of its own
      // outside its StreamController)
      let inners = rest.clone();
      observables::defer(move || {
        let ctr = Arc::new(Mutex::new(0usize));
        let inners = inners.clone();
        s0.flat_map(move |_x: Sym| {
          let k = {
            let mut c = ctr.lock().unwrap();
            let k = *c;
            *c += 1;
            k
          };
          inners[k % inners.len()].clone()
        })
      })
    }
    Comb::Retry => {
      let n = sym::choose(&format!("{}.retry", pfx), 4);
      s0.retry(n)
    }
    Comb::RetryWhen => {
      let c = Sym::var(&format!("{}.rc", pfx), 100);
      s0.retry_when(move |e: RxError| match e.downcast_ref::<Payload>() {
        Some(p) => p.0.sym_lt(&c, "retry_when"),
        None => false,
      })
    }
    Comb::OnErrorResumeNext => {
      let r = rest[0].clone();
      s0.on_error_resume_next(move |_e: RxError| r.clone())
    }
    Comb::Defer => {
      let s = s0.clone();
      observables::defer(move || s.clone())
    }
    Comb::ReadySetGo => utils::ready_set_go(|| {}, s0),
    Comb::ViaSubject => {
      let sbj = subjects::Subject::<Sym>::new();
      let o = sbj.observable();
      let (a, b, c) = (sbj.clone(), sbj.clone(), sbj.clone());
      let src = s0.clone();
      extra.connect = Some(Box::new(move || {
        let (a, b, c) = (a.clone(), b.clone(), c.clone());
        src.subscribe(move |x| a.next(x), move |e| b.error(e), move || c.complete())
      }));
      o
    }
    Comb::ViaBehavior => {
      let sbj = subjects::BehaviorSubject::<Sym>::new(Sym::konst(-7));
      let o = sbj.observable();
      let (a, b, c) = (sbj.clone(), sbj.clone(), sbj.clone());
      let src = s0.clone();
      extra.connect = Some(Box::new(move || {
        let (a, b, c) = (a.clone(), b.clone(), c.clone());
        src.subscribe(move |x| a.next(x), move |e| b.error(e), move || c.complete())
      }));
      o
    }
    Comb::ViaReplay => {
      let sbj = subjects::ReplaySubject::<Sym>::new();
      let o = sbj.observable();
      let (a, b, c) = (sbj.clone(), sbj.clone(), sbj.clone());
      let src = s0.clone();
      extra.connect = Some(Box::new(move || {
        let (a, b, c) = (a.clone(), b.clone(), c.clone());
        src.subscribe(move |x| a.next(x), move |e| b.error(e), move || c.complete())
      }));
      o
    }
    Comb::ViaAsync => {
      let sbj = subjects::AsyncSubject::<Sym>::new();
      let o = sbj.observable();
      let (a, b, c) = (sbj.clone(), sbj.clone(), sbj.clone());
      let src = s0.clone();
      extra.connect = Some(Box::new(move || {
        let (a, b, c) = (a.clone(), b.clone(), c.clone());
        src.subscribe(move |x| a.next(x), move |e| b.error(e), move || c.complete())
      }));
      o
    }
    Comb::PublishConnect => {
      let p = s0.publish();
      let o = p.observable();
      extra.connect = Some(Box::new(move || p.connect()));
      o
    }
    Comb::RefCount => {
      let r = s0.ref_count();
      let o = r.observable();
      extra.keep.push(Box::new(r));
      o
    }
    Comb::Replay => {
      let r = s0.replay();
      let o = r.observable();
      extra.keep.push(Box::new(r));
      o
    }
  }
}

#[derive(Clone, Debug, PartialEq)]
pub enum Topo {
  /// subscriber attached directly to the source
  Direct,
  /// chain of single-source operators over one source
  Chain(Vec<OpKind>),
  /// combinator with an optional single-source operator on source 0 (pre)
  /// and after the combinator (post)
  Comb { comb: Comb, pre: Option<OpKind>, post: Option<OpKind> },
}

impl Topo {
  pub fn name(&self) -> String {
    match self {
      Topo::Direct => "direct".into(),
      Topo::Chain(v) => format!("chain:{}", v.iter().map(|o| o.name()).collect::<Vec<_>>().join("+")),
      Topo::Comb { comb, pre, post } => format!(
        "comb:{}:{}:{}",
        comb.name(),
        pre.map(|o| o.name()).unwrap_or("-"),
        post.map(|o| o.name()).unwrap_or("-")
      ),
    }
  }
  pub fn from_name(s: &str) -> Option<Topo> {
    if s == "direct" {
      return Some(Topo::Direct);
    }
    if let Some(r) = s.strip_prefix("chain:") {
      let v: Option<Vec<OpKind>> = r.split('+').map(OpKind::from_name).collect();
      return Some(Topo::Chain(v?));
    }
    if let Some(r) = s.strip_prefix("comb:") {
      let p: Vec<&str> = r.split(':').collect();
      if p.len() != 3 {
        return None;
      }
      let f = |x: &str| if x == "-" { Some(None) } else { OpKind::from_name(x).map(Some) };
      return Some(Topo::Comb { comb: Comb::from_name(p[0])?, pre: f(p[1])?, post: f(p[2])? });
    }
    None
  }
  pub fn n_sources(&self) -> usize {
    match self {
      Topo::Comb { comb, .. } => comb.n_sources(),
      _ => 1,
    }
  }
}

pub struct Built {
  pub obs: Obs,
  pub insts: Vec<OpInst>,
  pub extra: Extra,
  pub label: String,
}

pub fn build(t: &Topo, srcs: &[Obs], pfx: &str) -> Built {
  let mut extra = Extra { keep: vec![], connect: None };
  match t {
    Topo::Direct => Built { obs: srcs[0].clone(), insts: vec![], extra, label: "direct".into() },
    Topo::Chain(ops) => {
      let insts: Vec<OpInst> = ops.iter().enumerate().map(|(i, k)| instantiate(*k, &format!("{}o{}", pfx, i))).collect();
      let mut o = srcs[0].clone();
      for i in insts.iter() {
        o = (i.real)(o);
      }
      let label = insts.iter().map(|i| i.label.clone()).collect::<Vec<_>>().join("|");
      Built { obs: o, insts, extra, label }
    }
    Topo::Comb { comb, pre, post } => {
      let mut insts = vec![];
      let mut srcs: Vec<Obs> = srcs.to_vec();
      let mut label = String::new();
      if let Some(p) = pre {
        let i = instantiate(*p, &format!("{}pre", pfx));
        srcs[0] = (i.real)(srcs[0].clone());
        label = format!("{}>", i.label);
        insts.push(i);
      }
      let mut o = build_comb(*comb, &srcs, pfx, &mut extra);
      label.push_str(comb.name());
      if let Some(p) = post {
        let i = instantiate(*p, &format!("{}post", pfx));
        o = (i.real)(o);
        label.push_str(&format!(">{}", i.label));
        insts.push(i);
      }
      Built { obs: o, insts, extra, label }
    }
  }
}

/// the catalogue of topologies at a given nesting depth
pub fn catalogue(depth2: bool, stateful_only_depth2: bool) -> Vec<Topo> {
  let mut v = vec![Topo::Direct];
  for o in ALL_OPS {
    v.push(Topo::Chain(vec![*o]));
  }
  for c in ALL_COMBS {
    v.push(Topo::Comb { comb: *c, pre: None, post: None });
  }
  if depth2 {
    let stateful = [
      OpKind::Take,
      OpKind::Skip,
      OpKind::TakeLast,
      OpKind::TakeWhile,
      OpKind::First,
      OpKind::Last,
      OpKind::Reduce,
      OpKind::DistinctUntilChanged,
      OpKind::BufferWithCount,
      OpKind::WindowWithCount,
      OpKind::GroupBy,
      OpKind::Dematerialize,
      OpKind::Contains,
      OpKind::All,
      OpKind::Tap,
    ];
    for a in ALL_OPS {
      for b in ALL_OPS {
        if stateful_only_depth2 && !(stateful.contains(a) || stateful.contains(b)) {
          continue;
        }
        v.push(Topo::Chain(vec![*a, *b]));
      }
    }
    for c in ALL_COMBS {
      for o in stateful.iter() {
        v.push(Topo::Comb { comb: *c, pre: Some(*o), post: None });
        v.push(Topo::Comb { comb: *c, pre: None, post: Some(*o) });
      }
    }
  }
  v
}
