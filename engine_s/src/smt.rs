//! One long-lived `z3 -in` process; SMT-LIB2 text over a pipe, push/pop.
//! Any `(error` line, `unknown`, or a dead solver makes the answer
//! `Unknown`, which callers must treat as inconclusive (exit 2), never as a
//! pass.

use std::io::{BufRead, BufReader, Write};
use std::process::{Child, ChildStdin, ChildStdout, Command, Stdio};
use std::time::Instant;

#[derive(Debug, Clone, PartialEq)]
pub enum Sat {
  Sat,
  Unsat,
  Unknown(String),
}

pub struct Solver {
  child: Child,
  stdin: ChildStdin,
  stdout: BufReader<ChildStdout>,
  pub queries: u64,
  pub n_sat: u64,
  pub n_unsat: u64,
  pub n_unknown: u64,
  pub solver_s: f64,
  pub bin: String,
}

impl Solver {
  pub fn new() -> Solver {
    let bin = std::env::var("VERIF_Z3").unwrap_or_else(|_| "z3".to_string());
    let mut child = Command::new(&bin)
      .args(["-in", "-smt2"])
      .stdin(Stdio::piped())
      .stdout(Stdio::piped())
      .stderr(Stdio::null())
      .spawn()
      .expect("cannot start z3");
    let stdin = child.stdin.take().unwrap();
    let stdout = BufReader::new(child.stdout.take().unwrap());
    let mut s = Solver {
      child,
      stdin,
      stdout,
      queries: 0,
      n_sat: 0,
      n_unsat: 0,
      n_unknown: 0,
      solver_s: 0.0,
      bin,
    };
    s.send("(set-option :print-success false)\n(set-logic ALL)\n");
    s
  }

  pub fn send(&mut self, s: &str) {
    if self.stdin.write_all(s.as_bytes()).is_err() {
      // dead solver: surfaces as Unknown on the next check
    }
  }

  fn read_line(&mut self) -> Option<String> {
    let mut l = String::new();
    match self.stdout.read_line(&mut l) {
      Ok(0) | Err(_) => None,
      Ok(_) => Some(l.trim().to_string()),
    }
  }

  pub fn check(&mut self) -> Sat {
    let t0 = Instant::now();
    self.send("(check-sat)\n");
    let _ = self.stdin.flush();
    self.queries += 1;
    let r = loop {
      match self.read_line() {
        None => break Sat::Unknown("solver died".into()),
        Some(l) if l.is_empty() => continue,
        Some(l) if l == "sat" => break Sat::Sat,
        Some(l) if l == "unsat" => break Sat::Unsat,
        Some(l) => break Sat::Unknown(l),
      }
    };
    self.solver_s += t0.elapsed().as_secs_f64();
    match &r {
      Sat::Sat => self.n_sat += 1,
      Sat::Unsat => self.n_unsat += 1,
      Sat::Unknown(_) => self.n_unknown += 1,
    }
    r
  }

  /// values of integer constants v0..v{n-1} after a `sat`
  pub fn get_values(&mut self, n: usize) -> Option<Vec<i64>> {
    if n == 0 {
      return Some(vec![]);
    }
    let t0 = Instant::now();
    let mut q = String::from("(get-value (");
    for i in 0..n {
      q.push_str(&format!("v{} ", i));
    }
    q.push_str("))\n");
    self.send(&q);
    let _ = self.stdin.flush();
    // the answer is one s-expression, possibly over several lines
    let mut buf = String::new();
    let mut depth = 0i32;
    let mut started = false;
    loop {
      let l = self.read_line()?;
      if l.starts_with("(error") {
        return None;
      }
      for ch in l.chars() {
        if ch == '(' {
          depth += 1;
          started = true;
        } else if ch == ')' {
          depth -= 1;
        }
      }
      buf.push_str(&l);
      buf.push(' ');
      if started && depth == 0 {
        break;
      }
    }
    self.solver_s += t0.elapsed().as_secs_f64();
    parse_values(&buf, n)
  }
}

impl Drop for Solver {
  fn drop(&mut self) {
    let _ = self.stdin.write_all(b"(exit)\n");
    let _ = self.child.kill();
    let _ = self.child.wait();
  }
}

fn parse_values(s: &str, n: usize) -> Option<Vec<i64>> {
  // ((v0 5) (v1 (- 3)) ...)
  let toks: Vec<String> = s
    .replace('(', " ( ")
    .replace(')', " ) ")
    .split_whitespace()
    .map(|x| x.to_string())
    .collect();
  let mut out = vec![0i64; n];
  let mut i = 0;
  let mut seen = 0;
  while i < toks.len() {
    if toks[i].starts_with('v') && toks[i][1..].chars().all(|c| c.is_ascii_digit()) && toks[i].len() > 1 {
      let ix: usize = toks[i][1..].parse().ok()?;
      // value follows
      let (val, adv) = if toks.get(i + 1)? == "(" {
        // ( - N )
        if toks.get(i + 2)? != "-" {
          return None;
        }
        let v: i128 = toks.get(i + 3)?.parse().ok()?;
        (-(v) as i64, 5)
      } else {
        let v: i128 = toks.get(i + 1)?.parse().ok()?;
        (v as i64, 2)
      };
      if ix < n {
        out[ix] = val;
        seen += 1;
      }
      i += adv;
    } else {
      i += 1;
    }
  }
  if seen == n {
    Some(out)
  } else {
    None
  }
}

#[cfg(test)]
mod test {
  #[test]
  fn parse() {
    let v = super::parse_values("((v0 5) (v1 (- 3)) (v2 0))", 3).unwrap();
    assert_eq!(v, vec![5, -3, 0]);
  }
}
