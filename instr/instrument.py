#!/usr/bin/env python3
"""Regenerate the instrumented copy of /repo's *current working tree*.

usage: instrument.py <dest-dir> [--flavour native|kani] [--repo /repo]

Exactly three mechanical, source-independent edits (DESIGN.md 2.1):
  1. every token `std::` in src/**/*.rs  ->  `crate::vf::stdx::`
  2. `pub mod vf;` appended to src/lib.rs, src/vf.rs written from instr/vf_<flavour>.rs
  3. (nothing else; no dependency is added any more - the runtime is self-contained)
The copy leaves out target/ and .git/.  Prints the content hash of the
copied sources (used by vcheck to key its build cache).
"""
import hashlib
import os
import re
import shutil
import sys

HERE = os.path.dirname(os.path.abspath(__file__))
TOKEN = re.compile(r'(?<![A-Za-z0-9_:])(?:::)?std::')


def tree_hash(repo):
    h = hashlib.sha256()
    files = []
    for root, dirs, fs in os.walk(os.path.join(repo, 'src')):
        dirs.sort()
        for f in sorted(fs):
            files.append(os.path.join(root, f))
    files.append(os.path.join(repo, 'Cargo.toml'))
    for f in files:
        h.update(os.path.relpath(f, repo).encode())
        with open(f, 'rb') as fh:
            h.update(fh.read())
    for f in sorted(os.listdir(HERE)):
        if f.startswith('vf_') or f == 'instrument.py':
            with open(os.path.join(HERE, f), 'rb') as fh:
                h.update(fh.read())
    return h.hexdigest()[:16]


def instrument(repo, dest, flavour):
    if os.path.exists(dest):
        shutil.rmtree(dest)
    os.makedirs(dest)
    shutil.copytree(os.path.join(repo, 'src'), os.path.join(dest, 'src'))
    for f in ('Cargo.toml', 'Cargo.lock', 'README.md'):
        if os.path.exists(os.path.join(repo, f)):
            shutil.copy(os.path.join(repo, f), os.path.join(dest, f))
    n = 0
    for root, _, fs in os.walk(os.path.join(dest, 'src')):
        for f in fs:
            if not f.endswith('.rs'):
                continue
            p = os.path.join(root, f)
            s = open(p).read()
            s2, k = TOKEN.subn('crate::vf::stdx::', s)
            n += k
            if k:
                open(p, 'w').write(s2)
    append_observer_count(dest)
    lib = os.path.join(dest, 'src', 'lib.rs')
    with open(lib, 'a') as fh:
        fh.write('\n#[allow(unused_imports)]\npub mod vf;\n')
    shutil.copy(os.path.join(HERE, 'vf_%s.rs' % flavour), os.path.join(dest, 'src', 'vf.rs'))
    # make the copy a stand-alone package (not a member of any workspace) and drop dev-deps
    ct = open(os.path.join(dest, 'Cargo.toml')).read()
    ct = re.sub(r'\[dev-dependencies\].*?(?=\n\[|\Z)', '', ct, flags=re.S)
    if '[workspace]' not in ct:
        ct += '\n[workspace]\n'
    open(os.path.join(dest, 'Cargo.toml'), 'w').write(ct)
    return n


def append_observer_count(dest):
    """C10: read-only accessor appended to the copy's subjects/subject.rs: number of registered observers
    (usize::MAX = the field could not be identified in this tree; the harness then skips the count)"""
    p = os.path.join(dest, 'src', 'subjects', 'subject.rs')
    if not os.path.exists(p):
        return
    s = open(p).read()
    body = 'usize::MAX'
    m = re.search(r'pub struct Subject\b.*?\{(.*?)\n\}', s, flags=re.S)
    if m:
        f = re.search(r'(\w+)\s*:\s*Arc<\s*(RwLock|Mutex)<\s*(?:HashMap|BTreeMap|Vec|VecDeque)\s*<[^\n]*Observer<', m.group(1))
        if f:
            body = 'self.%s.%s().unwrap().len()' % (f.group(1), 'read' if f.group(2) == 'RwLock' else 'lock')
    s += '''
impl<'a, Item> Subject<'a, Item>
where
  Item: Clone + Send + Sync,
{
  #[doc(hidden)]
  pub fn vf_observer_count(&self) -> usize {
    %s
  }
}
''' % body
    open(p, 'w').write(s)


def main():
    args = sys.argv[1:]
    repo = '/repo'
    flavour = 'native'
    dest = None
    i = 0
    while i < len(args):
        if args[i] == '--repo':
            repo = args[i + 1]; i += 2
        elif args[i] == '--flavour':
            flavour = args[i + 1]; i += 2
        elif args[i] == '--hash':
            print(tree_hash(repo)); return
        else:
            dest = args[i]; i += 1
    n = instrument(repo, dest, flavour)
    print(tree_hash(repo), n)


if __name__ == '__main__':
    main()
