// Facade, Kani flavour: single-threaded Cell-based model of the locks (no
// futex, no poisoning, no drop glue explosion).  A lock acquired while held
// incompatibly is a verification failure (self-deadlock on std).
#![allow(dead_code)]

pub mod stdx {
  pub use ::std::*;
  pub mod sync {
    pub use super::super::{Condvar, Mutex, MutexGuard, RwLock, RwLockReadGuard, RwLockWriteGuard};
    pub use ::std::sync::*;
  }
  pub mod thread {
    pub use ::std::thread::*;
  }
  pub mod collections {
    pub use ::std::collections::*;
  }
}

use ::std::cell::{Cell, UnsafeCell};
use ::std::ops::{Deref, DerefMut};

pub struct RwLock<T: ?Sized> {
  readers: Cell<u32>,
  writer: Cell<bool>,
  data: UnsafeCell<T>,
}
unsafe impl<T: ?Sized + Send> Send for RwLock<T> {}
unsafe impl<T: ?Sized + Send + Sync> Sync for RwLock<T> {}
pub struct RwLockReadGuard<'a, T: ?Sized> {
  lock: &'a RwLock<T>,
}
pub struct RwLockWriteGuard<'a, T: ?Sized> {
  lock: &'a RwLock<T>,
}
impl<T> RwLock<T> {
  pub fn new(t: T) -> Self {
    RwLock { readers: Cell::new(0), writer: Cell::new(false), data: UnsafeCell::new(t) }
  }
}
impl<T: ?Sized> RwLock<T> {
  pub fn read(&self) -> Result<RwLockReadGuard<'_, T>, ()> {
    assert!(!self.writer.get(), "self-deadlock: read while write-held");
    self.readers.set(self.readers.get() + 1);
    Ok(RwLockReadGuard { lock: self })
  }
  pub fn write(&self) -> Result<RwLockWriteGuard<'_, T>, ()> {
    assert!(!self.writer.get() && self.readers.get() == 0, "self-deadlock: write while held");
    self.writer.set(true);
    Ok(RwLockWriteGuard { lock: self })
  }
}
impl<'a, T: ?Sized> Deref for RwLockReadGuard<'a, T> {
  type Target = T;
  fn deref(&self) -> &T {
    unsafe { &*self.lock.data.get() }
  }
}
impl<'a, T: ?Sized> Deref for RwLockWriteGuard<'a, T> {
  type Target = T;
  fn deref(&self) -> &T {
    unsafe { &*self.lock.data.get() }
  }
}
impl<'a, T: ?Sized> DerefMut for RwLockWriteGuard<'a, T> {
  fn deref_mut(&mut self) -> &mut T {
    unsafe { &mut *self.lock.data.get() }
  }
}
impl<'a, T: ?Sized> Drop for RwLockReadGuard<'a, T> {
  fn drop(&mut self) {
    self.lock.readers.set(self.lock.readers.get() - 1);
  }
}
impl<'a, T: ?Sized> Drop for RwLockWriteGuard<'a, T> {
  fn drop(&mut self) {
    self.lock.writer.set(false);
  }
}

pub struct Mutex<T: ?Sized> {
  held: Cell<bool>,
  data: UnsafeCell<T>,
}
unsafe impl<T: ?Sized + Send> Send for Mutex<T> {}
unsafe impl<T: ?Sized + Send> Sync for Mutex<T> {}
pub struct MutexGuard<'a, T: ?Sized> {
  lock: &'a Mutex<T>,
}
impl<T> Mutex<T> {
  pub fn new(t: T) -> Self {
    Mutex { held: Cell::new(false), data: UnsafeCell::new(t) }
  }
}
impl<T: ?Sized> Mutex<T> {
  pub fn lock(&self) -> Result<MutexGuard<'_, T>, ()> {
    assert!(!self.held.get(), "self-deadlock: mutex");
    self.held.set(true);
    Ok(MutexGuard { lock: self })
  }
}
impl<'a, T: ?Sized> Deref for MutexGuard<'a, T> {
  type Target = T;
  fn deref(&self) -> &T {
    unsafe { &*self.lock.data.get() }
  }
}
impl<'a, T: ?Sized> DerefMut for MutexGuard<'a, T> {
  fn deref_mut(&mut self) -> &mut T {
    unsafe { &mut *self.lock.data.get() }
  }
}
impl<'a, T: ?Sized> Drop for MutexGuard<'a, T> {
  fn drop(&mut self) {
    self.lock.held.set(false);
  }
}

pub struct Condvar;
impl Condvar {
  pub fn new() -> Self {
    Condvar
  }
  pub fn wait_while<'a, T, F>(&self, mut guard: MutexGuard<'a, T>, mut condition: F) -> Result<MutexGuard<'a, T>, ()>
  where
    F: FnMut(&mut T) -> bool,
  {
    // single thread: nobody can ever notify
    assert!(!condition(&mut *guard), "would wait forever");
    Ok(guard)
  }
  pub fn notify_one(&self) {}
  pub fn notify_all(&self) {}
}
