// Facade injected into the instrumented copy of another-rxrust as `crate::vf`.
//
// Every `std::` path of the crate is rewritten to `crate::vf::stdx::`, which
// re-exports std unchanged except for
//   sync::{RwLock, Mutex, Condvar} (+ guards)  -> modelled locks, below
//   thread::{spawn, sleep, JoinHandle}          -> tasks of the runtime below
//   collections::HashMap                        -> deterministic hasher
// `Arc` stays std's Arc (real drop semantics).
//
// The runtime (`rt`) executes one *execution* at a time.  Tasks are real OS
// threads, but only the holder of the baton runs; every lock acquisition,
// condvar wait, spawn, sleep and task end is a scheduling point at which the
// scheduler policy (default, or a forced list coming from the SMT model of
// engine P) picks the next task among those whose pending operation is
// enabled.  All operations are appended to a trace.  "No task enabled while
// some are unfinished" is a deadlock (for a single task: a self-deadlock on a
// lock it already holds).  Time is virtual: `sleep(d)` blocks the task until
// the virtual clock reaches now+d, the clock advances only when no task is
// enabled.
#![allow(dead_code)]

pub mod stdx {
  pub use ::std::*;
  pub mod sync {
    pub use super::super::{
      Condvar, Mutex, MutexGuard, RwLock, RwLockReadGuard, RwLockWriteGuard, WaitTimeoutResult,
    };
    pub use ::std::sync::*;
  }
  pub mod thread {
    pub use super::super::{sleep, spawn, yield_now, Builder, JoinHandle};
    pub use ::std::thread::*;
  }
  pub mod collections {
    pub use super::super::HashMap;
    pub use ::std::collections::*;
  }
}

use ::std::cell::UnsafeCell;
use ::std::ops::{Deref, DerefMut};
use ::std::panic::Location;
use ::std::sync::LockResult;
use ::std::time::Duration;

// ---------------------------------------------------------------------------
// deterministic HashMap
// ---------------------------------------------------------------------------

#[derive(Clone, Default)]
pub struct DetState;
impl ::std::hash::BuildHasher for DetState {
  type Hasher = DetHasher;
  fn build_hasher(&self) -> DetHasher {
    DetHasher { h: rt::hash_seed() }
  }
}
pub struct DetHasher {
  h: u64,
}
impl ::std::hash::Hasher for DetHasher {
  fn finish(&self) -> u64 {
    let mut x = self.h;
    x ^= x >> 33;
    x = x.wrapping_mul(0xff51afd7ed558ccd);
    x ^= x >> 33;
    x
  }
  fn write(&mut self, bytes: &[u8]) {
    for b in bytes {
      self.h = (self.h ^ (*b as u64)).wrapping_mul(0x100000001b3);
    }
  }
}

pub struct HashMap<K, V>(::std::collections::HashMap<K, V, DetState>);
impl<K, V> HashMap<K, V> {
  pub fn new() -> Self {
    HashMap(::std::collections::HashMap::with_hasher(DetState))
  }
}
impl<K, V> Deref for HashMap<K, V> {
  type Target = ::std::collections::HashMap<K, V, DetState>;
  fn deref(&self) -> &Self::Target {
    &self.0
  }
}
impl<K, V> DerefMut for HashMap<K, V> {
  fn deref_mut(&mut self) -> &mut Self::Target {
    &mut self.0
  }
}
impl<K: Clone, V: Clone> Clone for HashMap<K, V> {
  fn clone(&self) -> Self {
    HashMap(self.0.clone())
  }
}

// ---------------------------------------------------------------------------
// locks
// ---------------------------------------------------------------------------

pub struct RwLock<T: ?Sized> {
  id: rt::ObjId,
  data: UnsafeCell<T>,
}
unsafe impl<T: ?Sized + Send> Send for RwLock<T> {}
unsafe impl<T: ?Sized + Send + Sync> Sync for RwLock<T> {}

pub struct RwLockReadGuard<'a, T: ?Sized> {
  lock: &'a RwLock<T>,
}
pub struct RwLockWriteGuard<'a, T: ?Sized> {
  lock: &'a RwLock<T>,
}

impl<T> RwLock<T> {
  #[track_caller]
  pub fn new(t: T) -> Self {
    RwLock {
      id: rt::new_obj(rt::ObjKind::RwLock, Location::caller()),
      data: UnsafeCell::new(t),
    }
  }
}
impl<T> RwLock<T> {
  pub fn into_inner(self) -> LockResult<T> {
    Ok(self.data.into_inner())
  }
}
impl<T: ?Sized> RwLock<T> {
  pub fn get_mut(&mut self) -> LockResult<&mut T> {
    Ok(self.data.get_mut())
  }
  /// non-blocking attempts: granted iff the modelled lock is free for that mode at this point
  /// (a scheduling point precedes the attempt)
  #[track_caller]
  pub fn try_read(&self) -> ::std::sync::TryLockResult<RwLockReadGuard<'_, T>> {
    if rt::try_acquire(self.id, rt::Mode::Read, Location::caller()) {
      Ok(RwLockReadGuard { lock: self })
    } else {
      Err(::std::sync::TryLockError::WouldBlock)
    }
  }
  #[track_caller]
  pub fn try_write(&self) -> ::std::sync::TryLockResult<RwLockWriteGuard<'_, T>> {
    if rt::try_acquire(self.id, rt::Mode::Write, Location::caller()) {
      Ok(RwLockWriteGuard { lock: self })
    } else {
      Err(::std::sync::TryLockError::WouldBlock)
    }
  }
  #[track_caller]
  pub fn read(&self) -> LockResult<RwLockReadGuard<'_, T>> {
    rt::acquire(self.id, rt::Mode::Read, Location::caller());
    Ok(RwLockReadGuard { lock: self })
  }
  #[track_caller]
  pub fn write(&self) -> LockResult<RwLockWriteGuard<'_, T>> {
    rt::acquire(self.id, rt::Mode::Write, Location::caller());
    Ok(RwLockWriteGuard { lock: self })
  }
}
impl<'a, T: ?Sized> Deref for RwLockReadGuard<'a, T> {
  type Target = T;
  fn deref(&self) -> &T {
    unsafe { &*self.lock.data.get() }
  }
}
impl<'a, T: ?Sized> Deref for RwLockWriteGuard<'a, T> {
  type Target = T;
  fn deref(&self) -> &T {
    unsafe { &*self.lock.data.get() }
  }
}
impl<'a, T: ?Sized> DerefMut for RwLockWriteGuard<'a, T> {
  fn deref_mut(&mut self) -> &mut T {
    unsafe { &mut *self.lock.data.get() }
  }
}
impl<'a, T: ?Sized> Drop for RwLockReadGuard<'a, T> {
  fn drop(&mut self) {
    rt::release(self.lock.id, rt::Mode::Read);
  }
}
impl<'a, T: ?Sized> Drop for RwLockWriteGuard<'a, T> {
  fn drop(&mut self) {
    rt::release(self.lock.id, rt::Mode::Write);
  }
}

pub struct Mutex<T: ?Sized> {
  id: rt::ObjId,
  data: UnsafeCell<T>,
}
unsafe impl<T: ?Sized + Send> Send for Mutex<T> {}
unsafe impl<T: ?Sized + Send> Sync for Mutex<T> {}
pub struct MutexGuard<'a, T: ?Sized> {
  lock: &'a Mutex<T>,
}
impl<T> Mutex<T> {
  #[track_caller]
  pub fn new(t: T) -> Self {
    Mutex {
      id: rt::new_obj(rt::ObjKind::Mutex, Location::caller()),
      data: UnsafeCell::new(t),
    }
  }
}
impl<T> Mutex<T> {
  pub fn into_inner(self) -> LockResult<T> {
    Ok(self.data.into_inner())
  }
}
impl<T: ?Sized> Mutex<T> {
  pub fn get_mut(&mut self) -> LockResult<&mut T> {
    Ok(self.data.get_mut())
  }
  #[track_caller]
  pub fn try_lock(&self) -> ::std::sync::TryLockResult<MutexGuard<'_, T>> {
    if rt::try_acquire(self.id, rt::Mode::Write, Location::caller()) {
      Ok(MutexGuard { lock: self })
    } else {
      Err(::std::sync::TryLockError::WouldBlock)
    }
  }
  #[track_caller]
  pub fn lock(&self) -> LockResult<MutexGuard<'_, T>> {
    rt::acquire(self.id, rt::Mode::Write, Location::caller());
    Ok(MutexGuard { lock: self })
  }
}
impl<'a, T: ?Sized> Deref for MutexGuard<'a, T> {
  type Target = T;
  fn deref(&self) -> &T {
    unsafe { &*self.lock.data.get() }
  }
}
impl<'a, T: ?Sized> DerefMut for MutexGuard<'a, T> {
  fn deref_mut(&mut self) -> &mut T {
    unsafe { &mut *self.lock.data.get() }
  }
}
impl<'a, T: ?Sized> Drop for MutexGuard<'a, T> {
  fn drop(&mut self) {
    rt::release(self.lock.id, rt::Mode::Write);
  }
}

pub struct Condvar {
  id: rt::ObjId,
}
impl Condvar {
  #[track_caller]
  pub fn new() -> Self {
    Condvar { id: rt::new_obj(rt::ObjKind::Condvar, Location::caller()) }
  }
  #[track_caller]
  pub fn wait<'a, T>(
    &self,
    guard: MutexGuard<'a, T>,
  ) -> LockResult<MutexGuard<'a, T>> {
    // releases the mutex, blocks until notified, re-acquires the mutex
    rt::cv_wait(self.id, guard.lock.id, Location::caller());
    Ok(guard)
  }
  #[track_caller]
  pub fn wait_while<'a, T, F>(
    &self,
    mut guard: MutexGuard<'a, T>,
    mut condition: F,
  ) -> LockResult<MutexGuard<'a, T>>
  where
    F: FnMut(&mut T) -> bool,
  {
    let site = Location::caller();
    while condition(&mut *guard) {
      rt::cv_wait(self.id, guard.lock.id, site);
    }
    Ok(guard)
  }
  /// timed waits use the virtual clock: the wait ends when notified or when the clock reaches the deadline
  #[track_caller]
  pub fn wait_timeout<'a, T>(
    &self,
    guard: MutexGuard<'a, T>,
    dur: Duration,
  ) -> LockResult<(MutexGuard<'a, T>, WaitTimeoutResult)> {
    let timed_out = rt::cv_wait_timeout(self.id, guard.lock.id, dur.as_nanos() as u64, Location::caller());
    Ok((guard, WaitTimeoutResult(timed_out)))
  }
  #[track_caller]
  pub fn wait_timeout_while<'a, T, F>(
    &self,
    mut guard: MutexGuard<'a, T>,
    dur: Duration,
    mut condition: F,
  ) -> LockResult<(MutexGuard<'a, T>, WaitTimeoutResult)>
  where
    F: FnMut(&mut T) -> bool,
  {
    let site = Location::caller();
    let deadline = rt::now() + dur.as_nanos() as u64;
    loop {
      if !condition(&mut *guard) {
        return Ok((guard, WaitTimeoutResult(false)));
      }
      let now = rt::now();
      if now >= deadline {
        return Ok((guard, WaitTimeoutResult(true)));
      }
      rt::cv_wait_timeout(self.id, guard.lock.id, deadline - now, site);
    }
  }
  #[track_caller]
  pub fn notify_one(&self) {
    rt::cv_notify(self.id, false, Location::caller());
  }
  #[track_caller]
  pub fn notify_all(&self) {
    rt::cv_notify(self.id, true, Location::caller());
  }
}

#[derive(Clone, Copy, Debug, PartialEq, Eq)]
pub struct WaitTimeoutResult(bool);
impl WaitTimeoutResult {
  pub fn timed_out(&self) -> bool {
    self.0
  }
}

// ---------------------------------------------------------------------------
// threads
// ---------------------------------------------------------------------------

/// `thread::Builder`: name and stack size are accepted and ignored, the thread is a task of the runtime
#[derive(Default)]
pub struct Builder;
impl Builder {
  pub fn new() -> Builder {
    Builder
  }
  pub fn name(self, _name: String) -> Builder {
    self
  }
  pub fn stack_size(self, _size: usize) -> Builder {
    self
  }
  #[track_caller]
  pub fn spawn<F, T>(self, f: F) -> ::std::io::Result<JoinHandle<T>>
  where
    F: FnOnce() -> T + Send + 'static,
    T: Send + 'static,
  {
    Ok(spawn(f))
  }
}

pub fn yield_now() {
  rt::yield_now();
}

pub struct JoinHandle<T> {
  task: usize,
  slot: ::std::sync::Arc<::std::sync::Mutex<Option<T>>>,
}
impl<T> JoinHandle<T> {
  #[track_caller]
  pub fn join(self) -> ::std::thread::Result<T> {
    rt::join(self.task, Location::caller());
    match self.slot.lock().unwrap().take() {
      Some(v) => Ok(v),
      None => Err(Box::new("task panicked")),
    }
  }
}

#[track_caller]
pub fn spawn<F, T>(f: F) -> JoinHandle<T>
where
  F: FnOnce() -> T + Send + 'static,
  T: Send + 'static,
{
  let slot = ::std::sync::Arc::new(::std::sync::Mutex::new(None));
  let slot2 = slot.clone();
  let task = rt::spawn_task(
    Box::new(move || {
      let v = f();
      *slot2.lock().unwrap() = Some(v);
    }),
    Location::caller(),
  );
  JoinHandle { task, slot }
}

#[track_caller]
pub fn sleep(d: Duration) {
  rt::sleep(d.as_nanos() as u64, Location::caller());
}

// ---------------------------------------------------------------------------
// runtime
// ---------------------------------------------------------------------------

pub mod rt {
  use ::std::cell::Cell;
  use ::std::collections::HashMap as StdMap;
  use ::std::panic::{self, AssertUnwindSafe, Location};
  use ::std::sync::{Arc, Condvar as StdCondvar, Mutex as StdMutex};

  pub type ObjId = u64;
  type Site = &'static Location<'static>;

  #[derive(Clone, Copy, PartialEq, Eq, Debug)]
  pub enum ObjKind {
    RwLock,
    Mutex,
    Condvar,
  }
  #[derive(Clone, Copy, PartialEq, Eq, Debug)]
  pub enum Mode {
    Read,
    Write,
  }

  #[derive(Clone, Debug)]
  pub enum Ev {
    /// task asked for the lock (scheduling point precedes the grant)
    Req { obj: ObjId, write: bool },
    /// task asked for the lock with try_read / try_write / try_lock (scheduling point follows); the next
    /// event of the task is `Acq` (granted) or `TryFail`
    TryReq { obj: ObjId, write: bool },
    TryFail { obj: ObjId, write: bool },
    /// lock granted; `ver` = version of the protected object observed,
    /// `rec` = recursive read (task already read-holds it)
    Acq { obj: ObjId, write: bool, ver: u32, rec: bool },
    Rel { obj: ObjId, write: bool },
    WaitBegin { cv: ObjId, mutex: ObjId },
    WaitEnd { cv: ObjId, mutex: ObjId, by: usize, ver: u32 },
    Notify { cv: ObjId, woke: Option<usize>, all: bool },
    Spawn { child: usize },
    Begin,
    End { panicked: bool },
    JoinReq { target: usize },
    Joined { target: usize },
    SleepBegin { nanos: u64 },
    SleepEnd { now: u64 },
    /// harness marker
    Mark { tag: String },
  }

  #[derive(Clone, Debug)]
  pub struct Event {
    pub task: usize,
    /// index of this event in its task's own sequence
    pub tidx: usize,
    pub ev: Ev,
    pub site: String,
    pub clock: u64,
  }

  #[derive(Clone, Debug, PartialEq)]
  pub enum Abort {
    /// no task enabled, some unfinished: (task, kind, detail, site) with
    /// kind in {"lock", "condvar", "join"}
    Deadlock(Vec<(usize, &'static str, String, String)>),
    StepLimit { live: Vec<usize> },
    Fuel,
  }

  #[derive(Clone, Debug, Default)]
  pub struct ExecResult {
    pub trace: Vec<Event>,
    pub abort: Option<Abort>,
    /// (task, panic message) for tasks that ended by a panic that is not
    /// the runtime's own abort marker
    pub panics: Vec<(usize, String)>,
    /// sequence of task ids chosen at each scheduling point where more than
    /// one task was enabled: (chosen, enabled set)
    pub decisions: Vec<(usize, Vec<usize>)>,
    pub steps: u64,
    pub final_clock: u64,
    pub tasks: usize,
    pub forced_divergence: Option<usize>,
  }

  #[derive(Clone, Debug)]
  pub struct Config {
    pub max_steps: u64,
    pub record_trace: bool,
    pub hash_seed: u64,
    /// forced decisions: for the k-th scheduling point with >1 enabled task,
    /// run `forced[k]` if it is enabled (else divergence is recorded and the
    /// default policy takes over)
    pub forced: Vec<usize>,
    /// target total order of events (task, per-task event index) coming from
    /// an SMT model (engine P): at every scheduling point the enabled task
    /// whose next event comes first in this order runs; tasks with no
    /// remaining entry run only when nothing else is enabled
    pub forced_order: Vec<(usize, usize)>,
    /// default policy once `forced` is used up: 0 = keep running the current
    /// task while it is enabled, else lowest enabled id;
    /// 1 = highest enabled id; 2 = rotate
    pub policy: u8,
  }
  impl Default for Config {
    fn default() -> Self {
      Config {
        max_steps: 200_000,
        record_trace: false,
        hash_seed: 0xcbf29ce484222325,
        forced: vec![],
        forced_order: vec![],
        policy: 0,
      }
    }
  }

  #[derive(Clone, Debug, PartialEq)]
  enum Pending {
    None,
    Begin,
    Acquire { obj: ObjId, write: bool },
    /// waiting on cv; `notified` set by notify
    CvWait { cv: ObjId, mutex: ObjId, notified: Option<usize>, until: Option<u64> },
    Join { target: usize },
    Sleep { until: u64 },
  }

  struct Task {
    pending: Pending,
    finished: bool,
    site: String,
    nev: usize,
    /// per-task object creation counter (stable object ids)
    nobj: u64,
  }

  #[derive(Default, Clone)]
  struct LockSt {
    readers: Vec<usize>,
    writer: Option<usize>,
    ver: u32,
  }

  struct State {
    active: bool,
    cfg: Config,
    tasks: Vec<Task>,
    cur: usize,
    locks: StdMap<ObjId, LockSt>,
    trace: Vec<Event>,
    abort: Option<Abort>,
    panics: Vec<(usize, String)>,
    decisions: Vec<(usize, Vec<usize>)>,
    forced_pos: usize,
    forced_divergence: Option<usize>,
    steps: u64,
    clock: u64,
    done: bool,
    live_threads: usize,
    hash_seed: u64,
  }

  struct Rt {
    st: StdMutex<State>,
    cv: StdCondvar,
  }

  fn rt() -> &'static Rt {
    static R: ::std::sync::OnceLock<Rt> = ::std::sync::OnceLock::new();
    R.get_or_init(|| Rt {
      st: StdMutex::new(State {
        active: false,
        cfg: Config::default(),
        tasks: vec![],
        cur: 0,
        locks: StdMap::new(),
        trace: vec![],
        abort: None,
        panics: vec![],
        decisions: vec![],
        forced_pos: 0,
        forced_divergence: None,
        steps: 0,
        clock: 0,
        done: false,
        live_threads: 0,
        hash_seed: 0xcbf29ce484222325,
      }),
      cv: StdCondvar::new(),
    })
  }

  thread_local! {
    static TASK: Cell<usize> = Cell::new(usize::MAX);
    static OUTSIDE_OBJ: Cell<u64> = Cell::new(0);
  }

  /// marker payload used to unwind tasks when an execution is aborted
  pub struct AbortUnwind;

  static HASH_SEED: ::std::sync::atomic::AtomicU64 =
    ::std::sync::atomic::AtomicU64::new(0xcbf29ce484222325);
  pub fn hash_seed() -> u64 {
    HASH_SEED.load(::std::sync::atomic::Ordering::Relaxed)
  }

  pub fn current_task() -> usize {
    TASK.with(|t| t.get())
  }

  fn lock_state() -> ::std::sync::MutexGuard<'static, State> {
    match rt().st.lock() {
      Ok(g) => g,
      Err(p) => p.into_inner(),
    }
  }

  pub fn new_obj(_kind: ObjKind, _site: Site) -> ObjId {
    let me = current_task();
    if me == usize::MAX {
      // created outside an execution (should not happen in the engines):
      // ids in a separate range
      return OUTSIDE_OBJ.with(|c| {
        let v = c.get();
        c.set(v + 1);
        (0xffff << 32) | v
      });
    }
    let mut g = lock_state();
    let t = &mut g.tasks[me];
    let id = ((me as u64) << 32) | t.nobj;
    t.nobj += 1;
    id
  }

  fn log(g: &mut State, task: usize, ev: Ev, site: &str) {
    let tidx = g.tasks[task].nev;
    g.tasks[task].nev += 1;
    if g.cfg.record_trace {
      let clock = g.clock;
      g.trace.push(Event { task, tidx, ev, site: site.to_string(), clock });
    }
  }

  fn site_str(s: Site) -> String {
    let f = s.file();
    let f = match f.rfind("/src/") {
      Some(i) => &f[i + 1..],
      None => f,
    };
    format!("{}:{}", f, s.line())
  }

  fn can_grant(l: &LockSt, task: usize, write: bool) -> bool {
    if write {
      l.writer.is_none() && l.readers.is_empty()
    } else {
      // std allows a thread to read-lock again while it read-holds the lock
      // (it can only block when a writer is queued in between); a recursive
      // read is granted and logged as such
      let _ = task;
      l.writer.is_none()
    }
  }

  fn enabled(g: &State, t: usize) -> bool {
    let task = &g.tasks[t];
    if task.finished {
      return false;
    }
    match &task.pending {
      Pending::None | Pending::Begin => true,
      Pending::Acquire { obj, write } => {
        let l = g.locks.get(obj).cloned().unwrap_or_default();
        can_grant(&l, t, *write)
      }
      Pending::CvWait { mutex, notified, until, .. } => {
        (notified.is_some() || until.map_or(false, |u| g.clock >= u)) && {
          let l = g.locks.get(mutex).cloned().unwrap_or_default();
          can_grant(&l, t, true)
        }
      }
      Pending::Join { target } => g.tasks[*target].finished,
      Pending::Sleep { until } => g.clock >= *until,
    }
  }

  fn describe(g: &State, t: usize) -> String {
    match &g.tasks[t].pending {
      Pending::Acquire { obj, write } => {
        let l = g.locks.get(obj).cloned().unwrap_or_default();
        format!(
          "{} lock {:x} (held: writer={:?} readers={:?})",
          if *write { "write" } else { "read" },
          obj,
          l.writer,
          l.readers
        )
      }
      Pending::CvWait { cv, notified, until, .. } => {
        format!("condvar {:x} notified={:?} until={:?}", cv, notified, until)
      }
      Pending::Join { target } => format!("join task {}", target),
      Pending::Sleep { until } => format!("sleep until {}", until),
      p => format!("{:?}", p),
    }
  }

  /// Called by the baton holder `me` after it has set its own pending
  /// operation (or finished).  Chooses the next task, hands the baton over
  /// and (unless `me` is finished) waits until `me` is chosen again.  On
  /// return the caller's pending op is enabled and it holds the baton.
  fn reschedule(
    mut g: ::std::sync::MutexGuard<'static, State>,
    me: usize,
    yielding: bool,
  ) -> ::std::sync::MutexGuard<'static, State> {
    loop {
      if g.abort.is_some() {
        return g;
      }
      g.steps += 1;
      if g.steps > g.cfg.max_steps {
        let live = (0..g.tasks.len()).filter(|t| !g.tasks[*t].finished).collect();
        g.abort = Some(Abort::StepLimit { live });
        rt().cv.notify_all();
        return g;
      }
      let mut en: Vec<usize> =
        (0..g.tasks.len()).filter(|t| enabled(&g, *t)).collect();
      if en.is_empty() {
        // advance the virtual clock to the earliest sleeper
        let wake = g
          .tasks
          .iter()
          .filter(|t| !t.finished)
          .filter_map(|t| match t.pending {
            Pending::Sleep { until } => Some(until),
            Pending::CvWait { until: Some(u), notified: None, .. } => Some(u),
            _ => None,
          })
          .min();
        if let Some(w) = wake {
          g.clock = w;
          if let Some(h) = hooks() {
            let mut winner = None;
            let mut others = vec![];
            for (ix, t) in g.tasks.iter().enumerate() {
              if t.finished {
                continue;
              }
              if let Pending::Sleep { until } = t.pending {
                if until == w && winner.is_none() {
                  winner = Some(ix);
                } else {
                  others.push(ix);
                }
              }
            }
            if let Some(wi) = winner {
              (h.on_wake)(wi, &others);
            }
          }
          continue;
        }
        let unfinished: Vec<usize> =
          (0..g.tasks.len()).filter(|t| !g.tasks[*t].finished).collect();
        if unfinished.is_empty() {
          g.done = true;
          rt().cv.notify_all();
          return g;
        }
        let blocked = unfinished
          .iter()
          .map(|t| {
            let kind = match &g.tasks[*t].pending {
              Pending::Acquire { .. } => "lock",
              Pending::CvWait { notified: None, .. } => "condvar",
              Pending::CvWait { .. } => "lock",
              Pending::Join { .. } => "join",
              _ => "other",
            };
            (*t, kind, describe(&g, *t), g.tasks[*t].site.clone())
          })
          .collect();
        g.abort = Some(Abort::Deadlock(blocked));
        rt().cv.notify_all();
        return g;
      }
      en.sort();
      let next = if en.len() == 1 {
        en[0]
      } else {
        let mut choice = None;
        if !g.cfg.forced_order.is_empty() {
          // earliest pending entry of the target order among enabled tasks
          let mut best: Option<(usize, usize)> = None; // (position, task)
          let mut earliest_any: Option<(usize, usize)> = None;
          for (pos, (t, tidx)) in g.cfg.forced_order.iter().enumerate() {
            if *t >= g.tasks.len() || g.tasks[*t].finished || *tidx < g.tasks[*t].nev {
              continue;
            }
            if earliest_any.is_none() {
              earliest_any = Some((pos, *t));
            }
            if en.contains(t) {
              best = Some((pos, *t));
              break;
            }
          }
          if let Some((_, t)) = best {
            choice = Some(t);
            if let Some((_, t0)) = earliest_any {
              if t0 != t && g.forced_divergence.is_none() {
                g.forced_divergence = Some(g.decisions.len());
              }
            }
          }
        }
        if choice.is_none() && g.forced_pos < g.cfg.forced.len() {
          let f = g.cfg.forced[g.forced_pos];
          if en.contains(&f) {
            choice = Some(f);
          } else if g.forced_divergence.is_none() {
            g.forced_divergence = Some(g.forced_pos);
          }
          g.forced_pos += 1;
        }
        let c = match choice {
          Some(c) => c,
          None => match g.cfg.policy {
            1 => *en.last().unwrap(),
            2 => {
              // rotate: first enabled id greater than me, else lowest
              *en.iter().find(|t| **t > me).unwrap_or(&en[0])
            }
            _ => {
              if en.contains(&me) && !yielding {
                me
              } else if yielding {
                *en.iter().find(|t| **t != me).unwrap_or(&en[0])
              } else {
                en[0]
              }
            }
          },
        };
        g.decisions.push((c, en.clone()));
        c
      };
      g.cur = next;
      if next == me {
        return g;
      }
      rt().cv.notify_all();
      if g.tasks[me].finished {
        return g;
      }
      // wait for the baton
      loop {
        g = match rt().cv.wait(g) {
          Ok(g) => g,
          Err(p) => p.into_inner(),
        };
        if g.abort.is_some() || g.cur == me {
          break;
        }
      }
      if g.abort.is_some() {
        return g;
      }
      // we were chosen: our op is enabled by construction
      return g;
    }
  }

  fn bail(g: ::std::sync::MutexGuard<'static, State>) -> ! {
    drop(g);
    panic::resume_unwind(Box::new(AbortUnwind));
  }

  fn check_abort(g: ::std::sync::MutexGuard<'static, State>) -> ::std::sync::MutexGuard<'static, State> {
    if g.abort.is_some() {
      if ::std::thread::panicking() {
        return g;
      }
      bail(g);
    }
    g
  }

  static SITES: StdMutex<Option<::std::collections::BTreeSet<(&'static str, u32)>>> = StdMutex::new(None);
  /// lock sites (file:line) acquired in any execution of this process
  pub fn sites() -> Vec<String> {
    let g = SITES.lock().unwrap();
    match &*g {
      Some(s) => s.iter().map(|(f, l)| {
        let f = match f.rfind("/src/") { Some(i) => &f[i + 1..], None => f };
        format!("{}:{}", f, l)
      }).collect(),
      None => vec![],
    }
  }

  pub fn acquire(obj: ObjId, mode: Mode, site: Site) {
    let me = current_task();
    if me == usize::MAX {
      return; // outside an execution: unmodelled
    }
    {
      let mut g = SITES.lock().unwrap();
      g.get_or_insert_with(Default::default).insert((site.file(), site.line()));
    }
    let write = mode == Mode::Write;
    let mut g = lock_state();
    if g.abort.is_some() && ::std::thread::panicking() {
      return;
    }
    let s = site_str(site);
    g.tasks[me].site = s.clone();
    // recursive read: granted without a scheduling point
    if !write {
      let l = g.locks.entry(obj).or_default();
      if l.readers.contains(&me) {
        let ver = l.ver;
        l.readers.push(me);
        log(&mut g, me, Ev::Acq { obj, write, ver, rec: true }, &s);
        return;
      }
    }
    log(&mut g, me, Ev::Req { obj, write }, &s);
    g.tasks[me].pending = Pending::Acquire { obj, write };
    g = reschedule(g, me, false);
    g = check_abort(g);
    if g.abort.is_some() {
      return;
    }
    g.tasks[me].pending = Pending::None;
    let l = g.locks.entry(obj).or_default();
    let ver;
    if write {
      l.writer = Some(me);
      l.ver += 1;
      ver = l.ver;
    } else {
      l.readers.push(me);
      ver = l.ver;
    }
    log(&mut g, me, Ev::Acq { obj, write, ver, rec: false }, &s);
  }

  /// non-blocking acquisition: a scheduling point, then granted iff free
  pub fn try_acquire(obj: ObjId, mode: Mode, site: Site) -> bool {
    let me = current_task();
    if me == usize::MAX {
      return true;
    }
    let write = mode == Mode::Write;
    let mut g = lock_state();
    if g.abort.is_some() && ::std::thread::panicking() {
      return false;
    }
    let s = site_str(site);
    g.tasks[me].site = s.clone();
    g.tasks[me].pending = Pending::None;
    log(&mut g, me, Ev::TryReq { obj, write }, &s);
    g = reschedule(g, me, false);
    g = check_abort(g);
    if g.abort.is_some() {
      return false;
    }
    let l = g.locks.entry(obj).or_default();
    let free = if write { l.writer.is_none() && l.readers.is_empty() } else { l.writer.is_none() };
    if !free {
      log(&mut g, me, Ev::TryFail { obj, write }, &s);
      return false;
    }
    let ver;
    if write {
      l.writer = Some(me);
      l.ver += 1;
      ver = l.ver;
    } else {
      l.readers.push(me);
      ver = l.ver;
    }
    log(&mut g, me, Ev::Acq { obj, write, ver, rec: false }, &s);
    true
  }

  pub fn release(obj: ObjId, mode: Mode) {
    let me = current_task();
    if me == usize::MAX {
      return;
    }
    let write = mode == Mode::Write;
    let mut g = lock_state();
    // a schedule dictated by the SMT side may pre-empt a task inside its critical section (only a
    // try_* of another task can tell the difference); without a dictated schedule nothing changes
    if g.abort.is_none() && !::std::thread::panicking() && me < g.tasks.len() && !g.tasks[me].finished {
      let pending_forced = g.cfg.forced_order.iter().any(|(t, tidx)| *t < g.tasks.len() && *t != me && !g.tasks[*t].finished && *tidx >= g.tasks[*t].nev);
      if pending_forced {
        g = reschedule(g, me, false);
      }
    }
    if let Some(l) = g.locks.get_mut(&obj) {
      if write {
        if l.writer == Some(me) {
          l.writer = None;
        }
      } else if let Some(p) = l.readers.iter().position(|t| *t == me) {
        l.readers.remove(p);
      }
    }
    if me < g.tasks.len() {
      let s = g.tasks[me].site.clone();
      log(&mut g, me, Ev::Rel { obj, write }, &s);
    }
  }

  /// scheduling point that exists only under a dictated schedule with entries of other tasks still to come
  /// (before a release, before a condvar wait gives up its mutex): without one nothing changes
  fn forced_point(mut g: ::std::sync::MutexGuard<'static, State>, me: usize) -> ::std::sync::MutexGuard<'static, State> {
    if g.abort.is_none() && !::std::thread::panicking() && me < g.tasks.len() && !g.tasks[me].finished {
      let pending_forced = g.cfg.forced_order.iter().any(|(t, tidx)| *t < g.tasks.len() && *t != me && !g.tasks[*t].finished && *tidx >= g.tasks[*t].nev);
      if pending_forced {
        g = reschedule(g, me, false);
      }
    }
    g
  }

  pub fn cv_wait(cv: ObjId, mutex: ObjId, site: Site) {
    let me = current_task();
    if me == usize::MAX {
      panic!("condvar wait outside an execution");
    }
    let mut g = lock_state();
    if g.abort.is_some() && ::std::thread::panicking() {
      return;
    }
    let s = site_str(site);
    g.tasks[me].site = s.clone();
    g = forced_point(g, me);
    // release the mutex
    if let Some(l) = g.locks.get_mut(&mutex) {
      l.writer = None;
    }
    log(&mut g, me, Ev::WaitBegin { cv, mutex }, &s);
    g.tasks[me].pending = Pending::CvWait { cv, mutex, notified: None, until: None };
    g = reschedule(g, me, false);
    g = check_abort(g);
    if g.abort.is_some() {
      return;
    }
    let by = match g.tasks[me].pending {
      Pending::CvWait { notified: Some(by), .. } => by,
      _ => usize::MAX,
    };
    g.tasks[me].pending = Pending::None;
    let l = g.locks.entry(mutex).or_default();
    l.writer = Some(me);
    l.ver += 1;
    let ver = l.ver;
    log(&mut g, me, Ev::WaitEnd { cv, mutex, by, ver }, &s);
  }

  /// timed wait; returns true when it ended by the deadline and not by a notification
  pub fn cv_wait_timeout(cv: ObjId, mutex: ObjId, nanos: u64, site: Site) -> bool {
    let me = current_task();
    if me == usize::MAX {
      panic!("condvar wait outside an execution");
    }
    let mut g = lock_state();
    if g.abort.is_some() && ::std::thread::panicking() {
      return true;
    }
    let s = site_str(site);
    g.tasks[me].site = s.clone();
    g = forced_point(g, me);
    if let Some(l) = g.locks.get_mut(&mutex) {
      l.writer = None;
    }
    log(&mut g, me, Ev::WaitBegin { cv, mutex }, &s);
    let until = g.clock + nanos.max(1);
    g.tasks[me].pending = Pending::CvWait { cv, mutex, notified: None, until: Some(until) };
    g = reschedule(g, me, false);
    g = check_abort(g);
    if g.abort.is_some() {
      return true;
    }
    let by = match g.tasks[me].pending {
      Pending::CvWait { notified: Some(by), .. } => Some(by),
      _ => None,
    };
    g.tasks[me].pending = Pending::None;
    let l = g.locks.entry(mutex).or_default();
    l.writer = Some(me);
    l.ver += 1;
    let ver = l.ver;
    log(&mut g, me, Ev::WaitEnd { cv, mutex, by: by.unwrap_or(usize::MAX), ver }, &s);
    by.is_none()
  }

  pub fn cv_notify(cv: ObjId, all: bool, site: Site) {
    let me = current_task();
    if me == usize::MAX {
      return;
    }
    let mut g = lock_state();
    let s = site_str(site);
    let mut woke = None;
    for t in 0..g.tasks.len() {
      if g.tasks[t].finished {
        continue;
      }
      if let Pending::CvWait { cv: c, notified, .. } = &mut g.tasks[t].pending {
        if *c == cv && notified.is_none() {
          *notified = Some(me);
          woke = Some(t);
          if !all {
            break;
          }
        }
      }
    }
    log(&mut g, me, Ev::Notify { cv, woke, all }, &s);
  }

  pub fn sleep(nanos: u64, site: Site) {
    let me = current_task();
    if me == usize::MAX {
      return;
    }
    let mut g = lock_state();
    if g.abort.is_some() && ::std::thread::panicking() {
      return;
    }
    let s = site_str(site);
    g.tasks[me].site = s.clone();
    log(&mut g, me, Ev::SleepBegin { nanos }, &s);
    if let Some(h) = hooks() {
      (h.on_sleep)(me, nanos);
    }
    let until = g.clock + nanos.max(1);
    g.tasks[me].pending = Pending::Sleep { until };
    g = reschedule(g, me, true);
    g = check_abort(g);
    if g.abort.is_some() {
      return;
    }
    g.tasks[me].pending = Pending::None;
    let now = g.clock;
    log(&mut g, me, Ev::SleepEnd { now }, &s);
  }

  /// pure scheduling point (used by harness code that wants to be
  /// preemptible at a marker)
  pub fn yield_now() {
    let me = current_task();
    if me == usize::MAX {
      return;
    }
    let mut g = lock_state();
    if g.abort.is_some() && ::std::thread::panicking() {
      return;
    }
    g.tasks[me].pending = Pending::None;
    g = reschedule(g, me, false);
    drop(check_abort(g));
  }

  pub fn join(target: usize, site: Site) {
    let me = current_task();
    if me == usize::MAX {
      return;
    }
    let mut g = lock_state();
    if g.abort.is_some() && ::std::thread::panicking() {
      return;
    }
    let s = site_str(site);
    g.tasks[me].site = s.clone();
    log(&mut g, me, Ev::JoinReq { target }, &s);
    g.tasks[me].pending = Pending::Join { target };
    g = reschedule(g, me, false);
    g = check_abort(g);
    if g.abort.is_some() {
      return;
    }
    g.tasks[me].pending = Pending::None;
    log(&mut g, me, Ev::Joined { target }, &s);
  }

  pub fn mark(tag: &str) {
    let me = current_task();
    if me == usize::MAX {
      return;
    }
    let mut g = lock_state();
    if me < g.tasks.len() {
      log(&mut g, me, Ev::Mark { tag: tag.to_string() }, "");
    }
  }

  pub fn now() -> u64 {
    lock_state().clock
  }

  /// hooks for a symbolic clock (engine S, C16): the harness mirrors every
  /// sleep and every advance of the virtual clock with solver terms
  pub struct TimeHooks {
    /// (task, nanos) when a task starts to sleep
    pub on_sleep: Box<dyn Fn(usize, u64) + Send + Sync>,
    /// (winner, other sleepers) when the clock advances to the winner's wake-up time
    pub on_wake: Box<dyn Fn(usize, &[usize]) + Send + Sync>,
  }
  static HOOKS: StdMutex<Option<Arc<TimeHooks>>> = StdMutex::new(None);
  pub fn set_time_hooks(h: Option<TimeHooks>) {
    *HOOKS.lock().unwrap_or_else(|p| p.into_inner()) = h.map(Arc::new);
  }
  fn hooks() -> Option<Arc<TimeHooks>> {
    HOOKS.lock().unwrap_or_else(|p| p.into_inner()).clone()
  }

  /// abort the running execution from harness code (fuel exhausted)
  pub fn abort_fuel() -> ! {
    let mut g = lock_state();
    if g.abort.is_none() {
      g.abort = Some(Abort::Fuel);
    }
    rt().cv.notify_all();
    bail(g);
  }

  fn task_body(me: usize, f: Box<dyn FnOnce() + Send>) {
    TASK.with(|t| t.set(me));
    // wait for the baton
    {
      let mut g = lock_state();
      while g.abort.is_none() && g.cur != me {
        g = match rt().cv.wait(g) {
          Ok(g) => g,
          Err(p) => p.into_inner(),
        };
      }
      if g.abort.is_none() {
        g.tasks[me].pending = Pending::None;
        log(&mut g, me, Ev::Begin, "");
      }
      let aborted = g.abort.is_some();
      drop(g);
      if aborted {
        finish_task(me, false, None);
        return;
      }
    }
    let r = panic::catch_unwind(AssertUnwindSafe(f));
    let (panicked, msg) = match r {
      Ok(()) => (false, None),
      Err(p) => {
        if p.is::<AbortUnwind>() {
          (false, None)
        } else if let Some(s) = p.downcast_ref::<String>() {
          (true, Some(s.clone()))
        } else if let Some(s) = p.downcast_ref::<&str>() {
          (true, Some(s.to_string()))
        } else {
          (true, Some("<non-string panic>".to_string()))
        }
      }
    };
    finish_task(me, panicked, msg);
  }

  fn finish_task(me: usize, panicked: bool, msg: Option<String>) {
    let mut g = lock_state();
    g.tasks[me].finished = true;
    g.tasks[me].pending = Pending::None;
    // a task that dies holding locks: std would leave them locked (or
    // poisoned); keep them held so that waiters show up as deadlocked.
    log(&mut g, me, Ev::End { panicked }, "");
    if let Some(m) = msg {
      g.panics.push((me, m));
    }
    if g.abort.is_none() && g.cur == me {
      g = reschedule(g, me, false);
    }
    g.live_threads -= 1;
    rt().cv.notify_all();
    drop(g);
    TASK.with(|t| t.set(usize::MAX));
  }

  pub fn spawn_task(f: Box<dyn FnOnce() + Send>, site: Site) -> usize {
    let me = current_task();
    if me == usize::MAX {
      panic!("thread::spawn outside an execution");
    }
    let mut g = lock_state();
    let s = site_str(site);
    let child = g.tasks.len();
    g.tasks.push(Task {
      pending: Pending::Begin,
      finished: false,
      site: s.clone(),
      nev: 0,
      nobj: 0,
    });
    g.live_threads += 1;
    log(&mut g, me, Ev::Spawn { child }, &s);
    drop(g);
    ::std::thread::Builder::new()
      .stack_size(16 << 20)
      .spawn(move || task_body(child, f))
      .expect("spawn");
    // scheduling point: the child may run first
    let mut g = lock_state();
    g.tasks[me].site = s;
    g.tasks[me].pending = Pending::None;
    g = reschedule(g, me, false);
    drop(check_abort(g));
    child
  }

  /// Run one execution.  `f` is task 0 and runs on a fresh OS thread; the
  /// call returns when every task has finished or the execution was aborted.
  pub fn run<F>(cfg: Config, f: F) -> ExecResult
  where
    F: FnOnce() + Send + 'static,
  {
    static SERIAL: StdMutex<()> = StdMutex::new(());
    let _one = match SERIAL.lock() {
      Ok(g) => g,
      Err(p) => p.into_inner(),
    };
    {
      let mut g = lock_state();
      assert!(!g.active, "nested vf::rt::run");
      g.active = true;
      g.hash_seed = cfg.hash_seed;
      HASH_SEED.store(cfg.hash_seed, ::std::sync::atomic::Ordering::Relaxed);
      g.cfg = cfg;
      g.tasks = vec![Task {
        pending: Pending::Begin,
        finished: false,
        site: String::new(),
        nev: 0,
        nobj: 0,
      }];
      g.cur = 0;
      g.locks.clear();
      g.trace.clear();
      g.abort = None;
      g.panics.clear();
      g.decisions.clear();
      g.forced_pos = 0;
      g.forced_divergence = None;
      g.steps = 0;
      g.clock = 0;
      g.done = false;
      g.live_threads = 1;
    }
    let h = ::std::thread::Builder::new()
      .stack_size(64 << 20)
      .spawn(move || task_body(0, Box::new(f)))
      .expect("spawn main task");
    let _ = h.join();
    // wait for all task threads to leave
    let mut g = lock_state();
    while g.live_threads > 0 {
      g = match rt().cv.wait(g) {
        Ok(g) => g,
        Err(p) => p.into_inner(),
      };
    }
    g.active = false;
    ExecResult {
      trace: ::std::mem::take(&mut g.trace),
      abort: g.abort.take(),
      panics: ::std::mem::take(&mut g.panics),
      decisions: ::std::mem::take(&mut g.decisions),
      steps: g.steps,
      final_clock: g.clock,
      tasks: g.tasks.len(),
      forced_divergence: g.forced_divergence,
    }
  }

  pub fn _unused(_: Arc<()>) {}
}
